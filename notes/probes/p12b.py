import numpy as np, warnings
warnings.simplefilter('ignore')
from virocon.distributions import LogNormalNormFitDistribution as L
def ll(d,x): return np.sum(np.log(d.pdf(x)))
bad=0;tot=0
for th in [dict(mu_norm=2.0,sigma_norm=0.7), dict(mu_norm=8.0,sigma_norm=3), dict(mu_norm=1.0,sigma_norm=1.5)]:
    g=L(**th)
    for n in [100,1000,5000]:
        for seed in range(10):
            x=g.draw_sample(n,random_state=seed)
            d=L(); d.fit(x)
            tot+=1
            if ll(d,x)<ll(g,x): bad+=1; print(th,n,seed,ll(d,x)-ll(g,x))
print(bad,tot)
