import numpy as np, warnings, time
warnings.simplefilter('ignore')
from virocon import *
def mk(slicer, tmpl='lognormal'):
    def lin(x,a=1.0,b=0.1): return a+b*x
    def lin2(x,a=0.3,b=0.01): return a+b*x
    return GlobalHierarchicalModel([{"distribution":WeibullDistribution(f_gamma=0),"intervals":slicer},
        {"distribution":LogNormalDistribution(),"conditional_on":0,"parameters":{"mu":DependenceFunction(lin),"sigma":DependenceFunction(lin2,bounds=[(0,None),(None,None)])}}])
gen=mk(None) if False else None
g=GlobalHierarchicalModel([{"distribution":WeibullDistribution(alpha=2,beta=1.5,gamma=0)},{"distribution":LogNormalDistribution(),"conditional_on":0,"parameters":{"mu":DependenceFunction(lambda x,a=1.0,b=0.1:a+b*x),"sigma":DependenceFunction(lambda x,a=0.3,b=0.01:a+b*x)}}])
data=np.round(g.draw_sample(2000,random_state=5),1)
data[:,0]=np.maximum(data[:,0],0.1); data[:,1]=np.maximum(data[:,1],0.1)
rng=np.random.default_rng(0)
perms={'id':np.arange(2000),'rev':np.arange(2000)[::-1],'sort0':np.argsort(data[:,0],kind='stable'),'sort1':np.argsort(data[:,1],kind='stable'),'shuf':rng.permutation(2000)}
for sname,sl in [('width',lambda:WidthOfIntervalSlicer(0.5,min_n_points=30)),('number',lambda:NumberOfIntervalsSlicer(8,min_n_points=30)),('points',lambda:PointsPerIntervalSlicer(250))]:
    res={}
    for pn,p in perms.items():
        m=mk(sl()); 
        try:
            m.fit(data[p]); d=m.distributions[1]
            res[pn]=(dict(m.distributions[0].parameters), [ (round(float(q['mu']),6),round(float(q['sigma']),6)) for q in d.parameters_per_interval][:3], [len(x) for x in d.data_intervals], {k:[round(float(v),6) for v in f.parameters.values()] for k,f in d.conditional_parameters.items()})
        except Exception as e: res[pn]=('EXC',type(e).__name__,str(e)[:60])
    print(sname)
    for k,v in res.items(): print('  ',k,v)
