import numpy as np, warnings, itertools
warnings.simplefilter('ignore')
from virocon import DependenceFunction
# 1. linear shape, no bounds
def lin(x,a,b): return a+b*x
x=np.linspace(0.5,8,10); y=0.3+1.7*x+0.05*np.sin(7*x)
d=DependenceFunction(lin); d.fit(x,y); print('lin',d.parameters, np.polyfit(x,y,1)[::-1])
# weights semantics
dw=DependenceFunction(lin,weights=lambda x,y:y); dw.fit(x,y)
W=y
A=np.c_[np.ones_like(x),x]
sol_w=np.linalg.lstsq(A*np.sqrt(W)[:,None],y*np.sqrt(W),rcond=None)[0]   # sum w r^2
sol_w2=np.linalg.lstsq(A*W[:,None],y*W,rcond=None)[0]   # sum w^2 r^2
sol_inv=np.linalg.lstsq(A/W[:,None],y/W,rcond=None)[0]  # sum (r/w)^2
print('weighted impl',dw.parameters,'sum w r2',sol_w,'sum w2 r2',sol_w2,'sum (r/w)2',sol_inv)
# bounds active
db=DependenceFunction(lin,bounds=[(1.0,None),(None,None)]); db.fit(x,y); print('bounded',db.parameters)
# constraints
def p3(x,a,b,c): return a+b*x**c
y3=0.5+1.2*x**0.8
for cons in [{'type':'ineq','fun':lambda p: p[0]-1.0}, [{'type':'ineq','fun':lambda p: p[0]-1.0}], {'type':'ineq','fun':lambda p: 5-p[0]}]:
    try:
        dc=DependenceFunction(p3,bounds=[(0,None),(0,None),(None,None)],constraints=cons); dc.fit(x,y3); print('constr',dc.parameters, 'resid', np.sum((dc(x)-y3)**2))
    except Exception as e: print('constr EXC',type(e).__name__,e)
# chain order
def alpha3(x,a,b,c,d_of_x): return (a+b*x**c)/2.0445**(1/d_of_x(x))
def logi(x,a=1,b=1,c=-1,d=1): return a+b/(1+np.exp(c*(x-d)))
yb=logi(x,0.8,1.5,-0.9,3.0); ya=alpha3(x,0.4,0.9,1.1,lambda t:logi(t,0.8,1.5,-0.9,3.0))
res={}
for order in ['beta_first','alpha_first']:
    beta=DependenceFunction(logi,[(0,None),(0,None),(None,0),(0,None)])
    alpha=DependenceFunction(alpha3,[(0,None),(0,None),(None,None)],d_of_x=beta)
    if order=='beta_first': beta.fit(x,yb); alpha.fit(x,ya)
    else: alpha.fit(x,ya); beta.fit(x,yb)
    res[order]=(dict(alpha.parameters),dict(beta.parameters))
    print(order,alpha.parameters,beta.parameters)
    # refit with different data
    yb2=logi(x,1.0,1.2,-0.7,2.5); ya2=alpha3(x,0.6,0.7,1.2,lambda t:logi(t,1.0,1.2,-0.7,2.5))
    if order=='beta_first': beta.fit(x,yb2); alpha.fit(x,ya2)
    else: alpha.fit(x,ya2); beta.fit(x,yb2)
    print(' refit',alpha.parameters,beta.parameters)
# two conditioners
def f3(x,a,g_of_x,h_of_x): return a*g_of_x(x)+h_of_x(x)
for order in itertools.permutations('fgh'):
    g=DependenceFunction(lin); h=DependenceFunction(lin)
    f=DependenceFunction(f3,g_of_x=g,h_of_x=h)
    yg=1+2*x; yh=3-0.2*x; yf=1.5*yg+yh
    objs={'f':(f,yf),'g':(g,yg),'h':(h,yh)}
    log=[]
    try:
        for k in order:
            o,yy=objs[k]; o.fit(x,yy)
        print(order,f.parameters,g.parameters,h.parameters)
    except Exception as e: print(order,'EXC',type(e).__name__,e)
