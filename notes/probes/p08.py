import numpy as np, warnings, itertools
warnings.simplefilter('ignore')
from virocon import *
from virocon.distributions import LogNormalNormFitDistribution, ScipyDistribution, ConditionalDistribution
class Gam(ScipyDistribution):
    scipy_dist_name='gamma'
def inc(x,a=1.0,b=0.5): return a+b*x*x/(1+x*x)
def dec(x,a=0.3,b=0.4): return a+b/(1+x*x)
def const(x,a=0.7): return a
fams={'W':(WeibullDistribution,['alpha','beta','gamma']),'L':(LogNormalDistribution,['mu','sigma']),'N':(NormalDistribution,['mu','sigma']),
 'E':(ExponentiatedWeibullDistribution,['alpha','beta','delta']),'G':(GeneralizedGammaDistribution,['m','c','lambda_']),'V':(VonMisesDistribution,['kappa','mu']),
 'F':(LogNormalNormFitDistribution,['mu_norm','sigma_norm']),'S':(Gam,['a','loc','scale'])}
shapes=[('inc',inc,dict(a=1.0,b=0.5)),('dec',dec,dict(a=0.3,b=0.4)),('const',const,dict(a=0.7))]
gs=[0.0,0.3,1.0,2.5,7.0]
xs=[0.2,0.8,1.5,2.2,4.0]
bad=0;tot=0
for fk,(cls,names) in fams.items():
    for r in range(1,len(names)+1):
        for depset in itertools.combinations(names,r):
            for assign in itertools.product(range(len(shapes)),repeat=len(depset)):
                fixed={n:0.9 for n in names if n not in depset}
                try:
                    tmpl=cls(**{f'f_{k}':v for k,v in fixed.items()})
                    cd=ConditionalDistribution(tmpl,{n:DependenceFunction(shapes[i][1]) for n,i in zip(depset,assign)})
                except Exception as e:
                    print('construct EXC',fk,depset,e); continue
                for meth in ['cdf','pdf','icdf']:
                    arg=np.array(xs) if meth!='icdf' else np.array([0.05,0.3,0.5,0.8,0.99])
                    try:
                        vec=getattr(cd,meth)(arg,np.array(gs))
                        ref=[]
                        for a,g in zip(arg,gs):
                            th=dict(fixed)
                            for n,i in zip(depset,assign): th[n]=shapes[i][1](g)
                            ref.append(getattr(cls(**th),meth)(a))
                        sc=[getattr(cd,meth)(a,g) for a,g in zip(arg,gs)]
                        tot+=1
                        ok1=np.allclose(vec,ref,rtol=1e-12,atol=1e-300,equal_nan=True); ok2=np.allclose(sc,ref,rtol=1e-12,atol=1e-300,equal_nan=True)
                        if not(ok1 and ok2):
                            bad+=1
                            if bad<15: print('MISMATCH',fk,depset,[shapes[i][0] for i in assign],meth,ok1,ok2)
                    except Exception as e:
                        bad+=1; print('EXC',fk,depset,[shapes[i][0] for i in assign],meth,type(e).__name__,str(e)[:60])
print(tot,bad)
