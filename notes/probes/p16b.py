import numpy as np, warnings, itertools
warnings.simplefilter('ignore')
from virocon import variable_transform as vt
from virocon import *
L=np.logspace(-3,2,11)
worst={}
for a,b in itertools.product(L,L):
    s,d=vt.hs_tz_to_s_d(a,b); h,t=vt.s_d_to_hs_tz(s,d); worst['sd']=max(worst.get('sd',0),abs(h/a-1),abs(t/b-1))
    h2,s2=vt.hs_tz_to_hs_s(a,b); h3,t3=vt.hs_s_to_hs_tz(h2,s2); worst['hs_s']=max(worst.get('hs_s',0),abs(h3/a-1),abs(t3/b-1))
    s4,t4=vt.hs_tz_to_s_tz(a,b); h5,t5=vt.s_tz_to_hs_tz(s4,t4); worst['s_tz']=max(worst.get('s_tz',0),abs(h5/a-1),abs(t5/b-1))
    # other direction
    h,t=vt.s_d_to_hs_tz(a,b); s,d=vt.hs_tz_to_s_d(h,t); worst['sd_rev']=max(worst.get('sd_rev',0),abs(s/a-1),abs(d/b-1))
print(worst)
# number slicer categories
import collections
cats=collections.Counter()
for nint in [2,3,4,7,10]:
  for lattice in [[0,0.1,0.2,0.3,0.4,0.5,0.6,0.7],[0.3,0.7,1.1,1.4,2.1,2.8],[1,2,3,4,5]]:
    for n in [2,3]:
        for vec in itertools.product(lattice, repeat=n):
            data=np.array(vec,dtype=float)
            if data.min()==data.max(): continue
            for im in [True,False]:
                s = NumberOfIntervalsSlicer(nint, include_max=im, min_n_points=0, min_n_intervals=0)
                masks,_,_=s.slice_(data); cnt=np.array(masks).sum(axis=0)
                ismax=data==data.max()
                for c,mx in zip(cnt,ismax):
                    cats[(im,bool(mx),int(c))]+=1
print(sorted(cats.items()))
