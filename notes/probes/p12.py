import numpy as np, itertools, warnings, time
warnings.simplefilter('ignore')
from virocon import *
from virocon.distributions import LogNormalNormFitDistribution, ScipyDistribution
fams = {
 'Weibull': (WeibullDistribution, [dict(alpha=2.0,beta=1.5,gamma=0.5), dict(alpha=0.5,beta=0.9,gamma=0.0), dict(alpha=8.0,beta=2.5,gamma=1.0), dict(alpha=3,beta=1.2,gamma=0.2)], ['alpha','gamma'], [], ['beta']),
 'LogNormal': (LogNormalDistribution, [dict(mu=0.3,sigma=0.4), dict(mu=2.0,sigma=0.2), dict(mu=-1.0,sigma=0.8)], [], ['mu'], ['sigma']),
 'Normal': (NormalDistribution, [dict(mu=1.0,sigma=2.0), dict(mu=10,sigma=0.5)], ['mu','sigma'], [], []),
 'EW': (ExponentiatedWeibullDistribution, [dict(alpha=2.0,beta=1.5,delta=3.0), dict(alpha=0.2,beta=0.7,delta=8.0), dict(alpha=5,beta=2.0,delta=1.0)], ['alpha'], [], ['beta','delta']),
 'GG': (GeneralizedGammaDistribution, [dict(m=2.0,c=1.5,lambda_=0.5), dict(m=1.0,c=2.0,lambda_=0.2), dict(m=4,c=0.8,lambda_=3.0)], [], [], ['m','c']),
 'VM': (VonMisesDistribution, [dict(kappa=2.0,mu=0.5), dict(kappa=0.5,mu=-1.0), dict(kappa=10,mu=2.0)], [], [], []),
 'LNNF': (LogNormalNormFitDistribution, [dict(mu_norm=2.0,sigma_norm=0.7), dict(mu_norm=8.0,sigma_norm=3)], ['mu_norm','sigma_norm'], [], []),
}
def ll(d,x):
    with np.errstate(all='ignore'):
        return np.sum(np.log(d.pdf(x)))
for name,(cls,ths,scalepars,logpars,shapepars) in fams.items():
  for th in ths:
    gen=cls(**th)
    for n in [100,1000]:
      for seed in [1,2]:
        x=gen.draw_sample(n,random_state=seed)
        d=cls(); l0=ll(d,x)
        t=time.time(); d.fit(x); dt=time.time()-t
        l1=ll(d,x); lt=ll(gen,x)
        flag=''
        if not (l1>=l0-1e-9*abs(l0)): flag+=' BELOW_START'
        if not (l1>=lt-1e-6*abs(lt)): flag+=' BELOW_TRUE(%.3g)'%(lt-l1)
        # scale equivariance
        c=2.0
        d2=cls(); d2.fit(c*x)
        p1=d.parameters; p2=d2.parameters
        dev={}
        for k in p1:
            if name=='GG' and k=='lambda_': exp_=p1[k]/c**p1['c'] if False else None
            if k in scalepars: dev[k]=p2[k]/(c*p1[k])-1
            elif k in logpars: dev[k]=p2[k]-(p1[k]+np.log(c))
            elif k in shapepars: dev[k]=p2[k]/p1[k]-1
        print(name,th,n,seed,'%.2fs'%dt,{k:round(float(v),4) for k,v in p1.items()}, 'l0=%.1f l1=%.1f lt=%.1f'%(l0,l1,lt),flag,'equiv',{k:'%.1e'%v for k,v in dev.items()})
