import numpy as np, warnings, itertools
import scipy.ndimage as ndi
from virocon import *
def _power3(x, a=0.1000, b=1.489, c=0.1901): return a + b * x**c
def _exp3(x, a=0.0400, b=0.1748, c=-0.2243): return a + b * np.exp(c * x)
bounds = [(0, None), (0, None), (None, None)]
m = GlobalHierarchicalModel([{"distribution": WeibullDistribution(alpha=2.776, beta=1.471, gamma=0.8888)},
 {"distribution": LogNormalDistribution(),"conditional_on": 0,"parameters": {"mu": DependenceFunction(_power3,bounds), "sigma": DependenceFunction(_exp3,bounds)}}])
def oracle(c, m, alpha):
    cc=c.cell_center_coordinates; deltas=c.deltas
    P=np.empty((len(cc[0]),len(cc[1])))
    d0,d1=m.distributions
    dx0=cc[0][1]-cc[0][0]; dx1=cc[1][1]-cc[1][0]
    p0=d0.cdf(cc[0]+dx0/2)-d0.cdf(cc[0]-dx0/2)
    for i,g in enumerate(cc[0]):
        P[i,:]=p0[i]*(d1.cdf(cc[1]+dx1/2,given=g)-d1.cdf(cc[1]-dx1/2,given=g))
    vol=np.prod(deltas)
    dens=P/vol
    R=dens>=c.fm*(1-1e-12)
    return P,R
for alpha in [0.3,0.05,1e-3,1e-5]:
  for deltas in [0.1,[0.1,0.1],[0.5,0.05],[0.05,0.5],[0.2,0.1],[0.3,0.25]]:
    with warnings.catch_warnings(record=True) as w:
        warnings.simplefilter('always')
        c=HighestDensityContour(m,alpha,limits=[(0,20),(0,18)],deltas=deltas)
    P,R=oracle(c,m,alpha)
    s=P[R].sum(); mx=P[~R].max()
    er=ndi.binary_erosion(R,structure=np.ones((3,3),bool))
    B=R&~er
    nb=B.sum()
    co=c.coordinates
    nco = len(co) if isinstance(co,np.ndarray) else ('list',[len(x[0]) for x in co])
    print(alpha,deltas,'sum',round(s,8),'<=',1-alpha,'<',round(s+mx,8), 'ok' if s<=1-alpha+1e-12 and 1-alpha<s+mx else 'BAD', 'boundary',nb,'returned',nco,[str(x.message)[:30] for x in w])
