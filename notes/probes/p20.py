import numpy as np, warnings, os, tempfile
warnings.simplefilter('ignore')
import matplotlib; matplotlib.use('Agg')
import matplotlib.pyplot as plt
from virocon import *
from virocon.contours import save_contour_coordinates
def _power3(x, a=0.1000, b=1.489, c=0.1901): return a + b * x**c
def _exp3(x, a=0.0400, b=0.1748, c=-0.2243): return a + b * np.exp(c * x)
bounds = [(0, None), (0, None), (None, None)]
m = GlobalHierarchicalModel([{"distribution": WeibullDistribution(alpha=2.776, beta=1.471, gamma=0.8888)},
 {"distribution": LogNormalDistribution(),"conditional_on": 0,"parameters": {"mu": DependenceFunction(_power3,bounds), "sigma": DependenceFunction(_exp3,bounds)}}])
c=IFORMContour(m,0.01,n_points=8)
d=tempfile.mkdtemp()
for p in ['a','b.txt','c.csv','dir.d/e']:
    fp=os.path.join(d,p)
    os.makedirs(os.path.dirname(fp),exist_ok=True)
    save_contour_coordinates(c,fp,{"names":["Hs;x","T z"],"symbols":["a","b"],"units":["m","s"]})
print(sorted(os.listdir(d)), os.listdir(os.path.join(d,'dir.d')))
print(open(os.path.join(d,'a.txt')).read()[:200])
# OR contour saving (object dtype)
s=m.draw_sample(5000,random_state=1)
np.random.seed(1)
oc=OrContour(m,0.05,sample=s,deg_step=10)
print(oc.coordinates.dtype, oc.coordinates.shape, oc.coordinates[:2], oc.coordinates[-3:])
try:
    save_contour_coordinates(oc,os.path.join(d,'or')); print(open(os.path.join(d,'or.txt')).read()[:120])
except Exception as e: print('save OR EXC',type(e).__name__,e)
# plot
for dc in [None, True, np.array([[1.0,2.0],[3.0,4.0]]), [[1.0,2.0],[3.0,4.0]]]:
    for sw in [False,True]:
        try:
            r=plot_2D_contour(c,sample=s[:10],design_conditions=dc,swap_axis=sw)
            ax=r[0] if isinstance(r,tuple) else r
            ln=ax.get_lines()[0]
            xy=np.c_[ln.get_xdata(),ln.get_ydata()]
            exp=np.r_[c.coordinates,c.coordinates[:1]]
            if sw: exp=exp[:,::-1]
            print(type(dc).__name__,sw,'line ok' if np.array_equal(xy,exp) else 'LINE MISMATCH', len(ax.collections), [col.get_offsets().shape for col in ax.collections])
        except Exception as e: print(type(dc).__name__,sw,'EXC',type(e).__name__,str(e)[:80])
        plt.close('all')
try:
    r=plot_2D_contour(oc); print('plot OR ok')
except Exception as e: print('plot OR EXC',type(e).__name__,str(e)[:80])
try:
    ax=plot_2D_isodensity(m,s[:100]); print('isodensity ok')
except Exception as e: print('isodensity EXC',type(e).__name__,str(e)[:80])
