import numpy as np
from virocon import *
d = dict(np.load("tests/comparison-to-virocon-v1/reference_data/contours/reference_data_DSContour.npz"))
sample=d['sample']; ref=d['ref_coordinates']
def _power3(x, a=0.1000, b=1.489, c=0.1901): return a + b * x**c
def _exp3(x, a=0.0400, b=0.1748, c=-0.2243): return a + b * np.exp(c * x)
bounds = [(0, None), (0, None), (None, None)]
m = GlobalHierarchicalModel([{"distribution": WeibullDistribution(alpha=2.776, beta=1.471, gamma=0.8888)},
 {"distribution": LogNormalDistribution(),"conditional_on": 0,"parameters": {"mu": DependenceFunction(_power3,bounds), "sigma": DependenceFunction(_exp3,bounds)}}])
alpha = calculate_alpha(3, 50)
c = DirectSamplingContour(m, alpha, sample=sample)
co=c.coordinates
print(sample.shape, ref.shape, co.shape)
print(ref[:2], ref[-3:]); print(co[:2], co[-3:])
print(np.abs(co-ref).max(axis=0), np.abs(co/ref-1).max())
# compute the tangent offsets check
x,y=sample.T
K=72
for j in [0,1,70,71]:
    v=co[j]; 
    # which normals does v lie on?
    res=[]
    for k in range(K):
        a=np.deg2rad(90+10-5*k)
        r=np.quantile(x*np.cos(a)+y*np.sin(a),1-alpha)
        res.append(abs(v[0]*np.cos(a)+v[1]*np.sin(a)-r))
    res=np.array(res); idx=np.argsort(res)[:2]
    print(j, v, idx, res[idx])
