import numpy as np, itertools, warnings
warnings.simplefilter('ignore')
from virocon import *
def oracle(x, w, delta):
    x=np.sort(x); n=len(x); p=(np.arange(1,n+1)-0.5)/n
    m=x>0
    xs=np.log10(x[m]); ps=np.log10(-np.log(1-p[m]**(1/delta))); ww=w[m]
    A=np.c_[np.ones_like(ps), ps]
    W=np.sqrt(ww)
    sol,*_=np.linalg.lstsq(A*W[:,None], xs*W, rcond=None)
    return 10**sol[0], 1/sol[1]
gen=ExponentiatedWeibullDistribution(alpha=2.0,beta=1.3,delta=2.5)
x=gen.draw_sample(500, random_state=1)
xs=np.sort(x)
specs={'none':None,'linear':'linear','quadratic':'quadratic','cubic':'cubic','arr_x2':xs**2,'arr_x2_scaled':7.0*xs**2,'arr_norm':xs**2/np.sum(xs**2)}
for meth in ['lsq','wlsq']:
  for name,w in specs.items():
    d=ExponentiatedWeibullDistribution(f_delta=2.5)
    d.fit(x, method=meth, weights=w)
    if w is None: ww=np.ones_like(xs)
    elif isinstance(w,str): ww=xs**{'linear':1,'quadratic':2,'cubic':3}[w]
    else: ww=np.asarray(w)
    a,b=oracle(x,ww,2.5)
    print(meth,name,'impl',round(d.alpha,5),round(d.beta,5),'oracle',round(a,5),round(b,5))
# free delta
for name,w in specs.items():
    d=ExponentiatedWeibullDistribution()
    d.fit(x, method='wlsq', weights=w)
    print('free',name,d.parameters)
# order dependence with array weights aligned to data
perm=np.random.default_rng(0).permutation(len(x))
w_al = x**2
d1=ExponentiatedWeibullDistribution(f_delta=2.5); d1.fit(x,method='wlsq',weights=w_al)
d2=ExponentiatedWeibullDistribution(f_delta=2.5); d2.fit(x[perm],method='wlsq',weights=w_al[perm])
d3=ExponentiatedWeibullDistribution(f_delta=2.5); d3.fit(np.sort(x),method='wlsq',weights=np.sort(x)**2)
print(d1.parameters,d2.parameters,d3.parameters)
# zeros
xz=np.concatenate([x,[0,0,0]])
d=ExponentiatedWeibullDistribution(f_delta=2.5); d.fit(xz,method='wlsq',weights='quadratic'); print('zeros',d.parameters)
