import numpy as np, warnings
import scipy.stats as sts
from virocon import *
from virocon.distributions import LogNormalNormFitDistribution
# explicit parameter override vs constructed
fams = {
 'Weibull': (WeibullDistribution, dict(alpha=2.0,beta=1.5,gamma=0.5)),
 'LogNormal': (LogNormalDistribution, dict(mu=0.3,sigma=0.4)),
 'Normal': (NormalDistribution, dict(mu=1.0,sigma=2.0)),
 'EW': (ExponentiatedWeibullDistribution, dict(alpha=2.0,beta=1.5,delta=3.0)),
 'GG': (GeneralizedGammaDistribution, dict(m=2.0,c=1.5,lambda_=0.5)),
 'VM': (VonMisesDistribution, dict(kappa=2.0,mu=0.5)),
 'LNNF': (LogNormalNormFitDistribution, dict(mu_norm=2.0,sigma_norm=0.7)),
}
x = np.array([-1.0,0.0,0.3,1.0,2.5,7.0])
for name,(cls,th) in fams.items():
    ref = cls(**th)
    for meth in ['cdf','pdf','icdf']:
        arg = x if meth!='icdf' else np.array([0.0,0.01,0.5,0.9,1.0])
        with warnings.catch_warnings():
            warnings.simplefilter('ignore')
            a = getattr(ref,meth)(arg)
            b = getattr(cls(),meth)(arg, **th)
            # single overrides
            bad=[]
            for k,v in th.items():
                if name=='LNNF': continue
                th2 = dict(th); 
                base = cls(**{**{kk:vv for kk,vv in th.items()}, })
                # instance with other params set, k default; override k explicitly
                d = cls(**{kk:vv for kk,vv in th.items() if kk!=k})
                c = getattr(d,meth)(arg, **{k:v})
                if not np.allclose(a,c,equal_nan=True): bad.append(k)
        print(name,meth,'all-explicit ok' if np.allclose(a,b,equal_nan=True) else 'ALL-EXPLICIT MISMATCH', 'single bad:',bad)
# scalars / lists
print(ExponentiatedWeibullDistribution().pdf(0.0), ExponentiatedWeibullDistribution().pdf([0.0,1.0]) if True else None)
