import numpy as np, warnings, time, itertools
warnings.simplefilter('ignore')
import scipy.stats as sts
from virocon import *
from virocon.distributions import LogNormalNormFitDistribution
def inc(x,a=1.0,b=0.5): return a+b*x*x/(1+x*x)
def dec(x,a=0.3,b=0.4): return a+b/(1+x*x)
def mkdist(fam, cond):
    if fam=='W':
        return (WeibullDistribution(alpha=2,beta=1.5,gamma=0.3),None) if not cond else (WeibullDistribution(f_gamma=0.3),{"alpha":DependenceFunction(inc),"beta":DependenceFunction(lambda x,a=1.2,b=0.5:a+b/(1+x*x))})
    if fam=='L':
        return (LogNormalDistribution(mu=0.5,sigma=0.4),None) if not cond else (LogNormalDistribution(),{"mu":DependenceFunction(inc),"sigma":DependenceFunction(dec)})
    if fam=='N':
        return (NormalDistribution(mu=1,sigma=2),None) if not cond else (NormalDistribution(f_sigma=1.0),{"mu":DependenceFunction(inc)})
    if fam=='E':
        return (ExponentiatedWeibullDistribution(alpha=2,beta=1.5,delta=3),None) if not cond else (ExponentiatedWeibullDistribution(f_delta=3),{"alpha":DependenceFunction(inc),"beta":DependenceFunction(lambda x,a=1.2,b=0.5:a+b/(1+x*x))})
def build(fams, cond_on):
    ds=[]
    for f,c in zip(fams,cond_on):
        d,p=mkdist(f,c is not None)
        if c is None: ds.append({"distribution":d})
        else: ds.append({"distribution":d,"conditional_on":c,"parameters":p})
    return GlobalHierarchicalModel(ds)
def back(m,X):
    U=np.empty_like(X)
    for i,d in enumerate(m.distributions):
        c=m.conditional_on[i]
        for r in range(len(X)):
            p=d.cdf(X[r,i]) if c is None else d.cdf(X[r,i],given=X[r,c])
            U[r,i]=sts.norm.ppf(p)
    return U
worst=0
t=time.time();n=0
for nd in [2,3,4]:
    structs=list(itertools.product(*[[None]+list(range(i)) for i in range(nd)]))
    for st in structs:
        if st[0] is not None: continue
        for fams in itertools.product('WLNE',repeat=nd) if nd<4 else [('W','L','N','E'),('E','N','L','W')]:
            m=build(fams,st)
            for alpha in [1e-8,1e-3,0.5]:
                for cls in [IFORMContour,ISORMContour]:
                    for npts in [3,10]:
                        c=cls(m,alpha,n_points=npts); n+=1
                        U=back(m,c.coordinates)
                        beta=sts.norm.ppf(1-alpha) if cls is IFORMContour else np.sqrt(sts.chi2.ppf(1-alpha,nd))
                        r=np.linalg.norm(U,axis=1)
                        err=np.abs(r-beta).max()
                        if err>1e-6: print('BAD',nd,st,fams,alpha,cls.__name__,npts,err, r, beta)
                        worst=max(worst,err)
print(n,worst,time.time()-t)
