import numpy as np, warnings, time
warnings.simplefilter('ignore')
from virocon import *
def const(x,a=0.5): return a
def lin(x,a=1.0,b=0.1): return a+b*x
m=GlobalHierarchicalModel([{"distribution":WeibullDistribution(alpha=2,beta=1.5,gamma=0)},{"distribution":LogNormalDistribution(),"conditional_on":0,"parameters":{"mu":DependenceFunction(lin),"sigma":DependenceFunction(const)}}])
s=m.draw_sample(5,random_state=1); print(s)
m2=GlobalHierarchicalModel([{"distribution":WeibullDistribution(alpha=2,beta=1.5,gamma=0)},{"distribution":LogNormalDistribution(),"conditional_on":0,"parameters":{"mu":DependenceFunction(const),"sigma":DependenceFunction(const)}}])
s=m2.draw_sample(5,random_state=1); print(s)
print(m2.pdf(s)); 
try: print(IFORMContour(m2,0.1,n_points=4).coordinates)
except Exception as e: print('IFORM EXC',e)
# fixed param + dependent
m3=GlobalHierarchicalModel([{"distribution":WeibullDistribution(alpha=2,beta=1.5,gamma=0)},{"distribution":LogNormalDistribution(f_sigma=0.3),"conditional_on":0,"parameters":{"mu":DependenceFunction(lin)}}])
print(m3.draw_sample(3,random_state=1))
# seeds
a=m.draw_sample(4,random_state=7); b=m.draw_sample(4,random_state=7); c=m.draw_sample(4,random_state=np.random.default_rng(7)); d=m.draw_sample(4,random_state=8)
print(np.array_equal(a,b),np.array_equal(a,c),np.array_equal(a,d))
print(m.draw_sample(1,random_state=1).shape)
# timing joint cdf 2D / 3D
t=time.time(); print(m.cdf([2.0,3.0]), time.time()-t)
t=time.time(); print(m.marginal_pdf(np.array([3.0]),1), time.time()-t)
t=time.time(); print(m.marginal_cdf(np.array([3.0]),1), time.time()-t)
m3d=GlobalHierarchicalModel([{"distribution":WeibullDistribution(alpha=2,beta=1.5,gamma=0)},{"distribution":LogNormalDistribution(f_sigma=0.3),"conditional_on":0,"parameters":{"mu":DependenceFunction(lin)}},{"distribution":LogNormalDistribution(f_sigma=0.4),"conditional_on":1,"parameters":{"mu":DependenceFunction(lin)}}])
t=time.time(); print(m3d.cdf([2.0,3.0,20.0]), time.time()-t)
t=time.time(); print(m3d.marginal_pdf(np.array([20.0]),2), time.time()-t)
