import numpy as np, itertools, warnings
from virocon import WidthOfIntervalSlicer, NumberOfIntervalsSlicer, PointsPerIntervalSlicer
def check(slicer, data):
    try:
        masks, refs, bnds = slicer.slice_(data)
    except RuntimeError as e:
        return 'rt'
    masks=np.array(masks)
    cnt = masks.sum(axis=0)
    return cnt, masks, refs, bnds
viol=0; total=0; ex=[]
for width in [0.1,0.3,0.7,0.5,1.0]:
    lattice = sorted(set([round(k*width/2,10) for k in range(0,9)]))
    for n in [1,2,3]:
        for vec in itertools.product(lattice, repeat=n):
            data=np.array(vec)
            for ro in [True, False]:
                s = WidthOfIntervalSlicer(width, right_open=ro, min_n_points=0, min_n_intervals=0)
                r = check(s, data); total+=1
                if r=='rt': continue
                cnt=r[0]
                # covered range: [0, max+width) for right-open, (0, ...] for left-open
                inside = (data>=0) if ro else (data>0)
                bad = (cnt[inside]!=1).any() or (cnt[~inside]!=0).any()
                if bad:
                    viol+=1
                    if len(ex)<8: ex.append((width,ro,vec,cnt.tolist()))
print('width slicer', total, viol, ex)
viol=0; total=0; ex=[]
for nint in [2,3,4,7]:
  for lattice in [[0,0.1,0.2,0.3,0.4,0.5,0.6,0.7],[0.3,0.7,1.1,1.4,2.1,2.8],[1,2,3,4,5]]:
    for n in [2,3,4]:
        for vec in itertools.product(lattice, repeat=n):
            data=np.array(vec,dtype=float)
            if data.min()==data.max(): continue
            for im in [True,False]:
                s = NumberOfIntervalsSlicer(nint, include_max=im, min_n_points=0, min_n_intervals=0)
                r=check(s,data); total+=1
                if r=='rt': continue
                cnt=r[0]
                inside = np.ones(len(data),bool) if im else data<data.max()
                bad=(cnt[inside]!=1).any() or (cnt[~inside]!=0).any()
                if bad:
                    viol+=1
                    if len(ex)<8: ex.append((nint,im,vec,cnt.tolist()))
print('number slicer', total, viol, ex)
viol=0; total=0; ex=[]
for npts in [1,2,3]:
    for n in [3,4,5]:
        for vec in itertools.product([0.,1.,2.,3.], repeat=n):
            data=np.array(vec)
            for lf in [True,False]:
                s=PointsPerIntervalSlicer(npts,last_full=lf,min_n_points=0,min_n_intervals=0)
                r=check(s,data); total+=1
                if r=='rt': continue
                cnt,masks,refs,bnds=r
                bad=(cnt!=1).any()
                # alignment: members of interval k should all be <= members of k+1
                for k in range(len(masks)-1):
                    if data[masks[k]].max()>data[masks[k+1]].min(): bad=True
                for k in range(len(masks)):
                    lo,up=bnds[k]
                    if (data[masks[k]]<lo).any() or (data[masks[k]]>up).any(): bad=True
                if bad:
                    viol+=1
                    if len(ex)<5: ex.append((npts,lf,vec,cnt.tolist(),[m.tolist() for m in masks]))
print('points slicer', total, viol, ex[:3])
