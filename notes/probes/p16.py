import numpy as np, warnings, time
warnings.simplefilter('ignore')
import pandas as pd
from virocon import *
data_hs_tz = read_ec_benchmark_dataset("datasets/ec-benchmark_dataset_C_1year.txt")
hs = data_hs_tz["significant wave height (m)"]; tz = data_hs_tz["zero-up-crossing period (s)"]
temp, steepness = variable_transform.hs_tz_to_hs_s(hs, tz); steepness.name="steepness"
data_hs_s = pd.concat([hs, steepness], axis=1)
dd, fd, sem, tr = get_Windmeier_EW_Hs_S()
model = GlobalHierarchicalModel(dd); model.fit(data_hs_s, fd)
print(model)
def mk(rs=42,pf=0.2): return TransformedModel(model, tr["transform"], tr["inverse"], tr["jacobian"], precision_factor=pf, random_state=rs)
alpha=1/(365.25*24)
t=time.time(); c1=IFORMContour(mk(),alpha,n_points=12).coordinates; print('t',time.time()-t)
c2=IFORMContour(mk(),alpha,n_points=12).coordinates
print('repro max abs diff', np.abs(c1-c2).max(axis=0))
# exact transformed IFORM of base model
cb=IFORMContour(model,alpha,n_points=12)
# base model contour in hs-s space -> to hs-tz: note the Rosenblatt differs (conditional of tz|hs vs s|hs monotone decreasing) so compare sets
print(np.c_[c1, tr["inverse"](cb.coordinates)])
# conditional sample at extreme hs
tm=mk()
for hsv in [1.0,3.0,6.0,9.0,12.0]:
    with warnings.catch_warnings(record=True) as w:
        warnings.simplefilter('always')
        s=tm.conditional_sample(100000,1,[hsv],random_state=1)
    # exact conditional: s|hs ~ EW(alpha(hs),beta(hs),2.35); tz = sqrt(factor*hs/s)
    d1=model.distributions[1]
    # cdf of tz: P(TZ<=t)=P(S>=factor*hs/t^2)
    ts=np.sort(s); F_emp=(np.arange(1,len(ts)+1))/len(ts)
    F_true=1-d1.cdf(variable_transform.factor*hsv/ts**2, given=hsv)
    print(hsv,len(s),'sup|Fn-F|',np.abs(F_emp-F_true).max(), 'range',ts[0],ts[-1], [str(x.message)[:60] for x in w][:2])
