import numpy as np, warnings
from virocon import *
def _power3(x, a=0.1000, b=1.489, c=0.1901): return a + b * x**c
def _exp3(x, a=0.0400, b=0.1748, c=-0.2243): return a + b * np.exp(c * x)
bounds = [(0, None), (0, None), (None, None)]
m = GlobalHierarchicalModel([{"distribution": WeibullDistribution(alpha=2.776, beta=1.471, gamma=0.8888)},
 {"distribution": LogNormalDistribution(),"conditional_on": 0,"parameters": {"mu": DependenceFunction(_power3,bounds), "sigma": DependenceFunction(_exp3,bounds)}}])
s = m.draw_sample(5000, random_state=1)
for deg in [1,2,3,4,5,6,8,9,10,12,15,18,20,24,30,36,40,45,60]:
    c = DirectSamplingContour(m, 0.05, deg_step=deg, sample=s)
    co = c.coordinates
    rad=deg*np.pi/180
    ang = np.arange(0.5*np.pi+2*rad, -1.5*np.pi+rad, -rad)
    print(deg, len(co), 360/deg, len(ang), co[0], co[-2], co[-1])
