import numpy as np
d = dict(np.load("tests/comparison-to-virocon-v1/reference_data/contours/reference_data_DSContour.npz"))
sample=d['sample']; ref=d['ref_coordinates']
alpha=3/(50*365.25*24)
x,y=sample.T
def C(a): return np.quantile(x*np.cos(a)+y*np.sin(a),1-alpha)
def inter(a1,a2):
    r1,r2=C(a1),C(a2)
    den=np.sin(a2)*np.cos(a1)-np.sin(a1)*np.cos(a2)
    return (np.sin(a2)*r1-np.sin(a1)*r2)/den, (-np.cos(a2)*r1+np.cos(a1)*r2)/den
print(inter(np.deg2rad(100),np.deg2rad(95)), ref[-1], ref[0], ref[-2])
v=np.array(inter(np.deg2rad(100),np.deg2rad(95)))
print(v/ref[-1]-1)
