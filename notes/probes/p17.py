import numpy as np, warnings, itertools
from fractions import Fraction as Fr
warnings.simplefilter('ignore')
from virocon._intersection import intersection
from virocon.utils import calculate_design_conditions
class C: pass
# star-shaped polygon non convex
def poly(r):
    n=len(r); phi=2*np.pi*np.arange(n)/n
    c=C(); c.coordinates=np.c_[5+np.array(r)*np.cos(phi), 5+np.array(r)*np.sin(phi)]; return c
c=poly([3,1,3,1,3,1,3,1,3,1,3,1])
for steps in [None,5,[5.0],[4.0,5.5,6.2],[100.0]]:
    for sw in [False,True]:
        try:
            print(steps,sw,calculate_design_conditions(c,steps,sw).tolist())
        except Exception as e: print(steps,sw,'EXC',type(e).__name__,e)
# convex polygon with probe through vertex
c=poly([3]*8)
print(c.coordinates[:3])
for x in [5.0, 8.0, 5+3*np.cos(np.pi/4), 2.0]:
    try: print(x, calculate_design_conditions(c,[x]).tolist())
    except Exception as e: print(x,'EXC',type(e).__name__,e)
# intersection: exhaustive small lattice vs exact
def seg_int(p,q,r,s):
    # exact intersection of segments pq and rs (proper or touching), returns point or None (parallel -> None)
    (x1,y1),(x2,y2),(x3,y3),(x4,y4)=p,q,r,s
    d=(x2-x1)*(y4-y3)-(y2-y1)*(x4-x3)
    if d==0: return 'par'
    t=Fr((x3-x1)*(y4-y3)-(y3-y1)*(x4-x3),d); u=Fr((x3-x1)*(y2-y1)-(y3-y1)*(x2-x1),d)
    if 0<=t<=1 and 0<=u<=1: return (x1+t*(x2-x1), y1+t*(y2-y1), t,u)
    return None
pts=[(i,j) for i in range(3) for j in range(3)]
tot=0;bad=0;ex=[]
for A in itertools.permutations(pts,3):
    for B in itertools.permutations(pts,2):
        # general position: no parallel overlapping, no touching endpoints (t,u strictly inside)
        exp=[];gp=True
        for (p,q) in [(A[0],A[1]),(A[1],A[2])]:
            r=seg_int(p,q,B[0],B[1])
            if r=='par':
                # parallel: general position only if not collinear
                (x1,y1),(x2,y2)=p,q;(x3,y3)=B[0]
                if (x2-x1)*(y3-y1)-(y2-y1)*(x3-x1)==0: gp=False
                continue
            if r is None: continue
            if r[2] in (0,1) or r[3] in (0,1): gp=False
            exp.append((float(r[0]),float(r[1])))
        if not gp: continue
        tot+=1
        x,y=intersection([a[0] for a in A],[a[1] for a in A],[b[0] for b in B],[b[1] for b in B])
        got=sorted(zip(x.tolist(),y.tolist())); 
        if len(got)!=len(exp) or not np.allclose(sorted(exp),got): 
            bad+=1
            if len(ex)<5: ex.append((A,B,exp,got))
print(tot,bad,ex)
