import numpy as np, itertools, warnings, traceback
warnings.simplefilter('ignore')
from virocon import *
from virocon.distributions import LogNormalNormFitDistribution, ScipyDistribution
class Gumbel(ScipyDistribution):
    scipy_dist_name='gumbel_r'
class WeibS(ScipyDistribution):
    scipy_dist_name='weibull_min'
fams = {
 'Weibull': (WeibullDistribution, dict(alpha=2.0,beta=1.5,gamma=0.5)),
 'LogNormal': (LogNormalDistribution, dict(mu=0.3,sigma=0.4)),
 'Normal': (NormalDistribution, dict(mu=1.0,sigma=2.0)),
 'EW': (ExponentiatedWeibullDistribution, dict(alpha=2.0,beta=1.5,delta=3.0)),
 'GG': (GeneralizedGammaDistribution, dict(m=2.0,c=1.5,lambda_=0.5)),
 'VM': (VonMisesDistribution, dict(kappa=2.0,mu=0.5)),
 'LNNF': (LogNormalNormFitDistribution, dict(mu_norm=2.0,sigma_norm=0.7)),
 'Gumbel': (Gumbel, dict(loc=1.0, scale=2.0)),
 'WeibS': (WeibS, dict(c=1.5, loc=0.0, scale=2.0)),
}
for name,(cls,th) in fams.items():
    gen = cls(**th)
    data = gen.draw_sample(1000, random_state=3)
    names=list(th)
    for r in range(1,len(names)):
        for fixed in itertools.combinations(names,r):
            kw={f'f_{k}':th[k]*1.1 for k in fixed}
            try:
                d=cls(**kw)
                p0=dict(d.parameters)
                cons_ok = all(abs(p0[k]-th[k]*1.1)<1e-12 for k in fixed)
                d.fit(data)
                p=d.parameters
                ok = all(abs(p[k]-th[k]*1.1)<=1e-12*abs(th[k]*1.1) for k in fixed)
                fin = all(np.isfinite(v) for v in p.values())
                print(name, fixed, 'constr_ok' if cons_ok else 'CONSTR_BAD', 'fit_ok' if ok else 'FIT_CHANGED', 'finite' if fin else 'NONFINITE', {k:round(float(v),4) for k,v in p.items()})
            except Exception as e:
                print(name, fixed, 'EXC', type(e).__name__, str(e)[:80])
