import numpy as np, warnings, itertools, time
warnings.simplefilter('ignore')
from virocon.utils import sort_points_to_form_continuous_line as srt
pts=[(i,j) for i in range(4) for j in range(4)]
t=time.time()
for scale in [(1,1),(1,3),(1,10)]:
    for opt in [False,True]:
        tot=0;bad=0;ex=None
        for k in [3,4,5]:
            for sub in itertools.combinations(pts,k):
                x=np.array([p[0]*scale[0] for p in sub],float); y=np.array([p[1]*scale[1] for p in sub],float)
                xx,yy=srt(x,y,search_for_optimal_start=opt)
                tot+=1
                if sorted(zip(xx.tolist(),yy.tolist()))!=sorted(zip(x.tolist(),y.tolist())):
                    bad+=1; ex=ex or (sub,list(zip(xx,yy)))
        print(scale,opt,tot,bad,ex)
print(time.time()-t)
# circle-like rings on isotropic grid of different radii (digital circles boundary)
for R in [3,5,8,12,20]:
    g=np.arange(-R-2,R+3); X,Y=np.meshgrid(g,g,indexing='ij')
    reg=(X**2+Y**2<=R*R)
    import scipy.ndimage as ndi
    b=reg&~ndi.binary_erosion(reg,structure=np.ones((3,3),bool))
    x=X[b].astype(float);y=Y[b].astype(float)
    for sc in [1,2,5]:
        xx,yy=srt(x,y*sc,search_for_optimal_start=True)
        print('ring',R,sc,len(x),len(xx))
