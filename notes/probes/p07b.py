import numpy as np, warnings, time, itertools
warnings.simplefilter('ignore')
import scipy.stats as sts
from virocon import *
def inc(x,a=0.5,b=1.5): return a+b*x*x/(1+x*x)
def dec(x,a=0.3,b=0.4): return a+b/(1+x*x)
def eps(n,delta=1e-12): return np.sqrt(np.log(2/delta)/(2*n))
def rosen(m,X):
    U=np.empty_like(X)
    for i,d in enumerate(m.distributions):
        c=m.conditional_on[i]
        p=d.cdf(X[:,i]) if c is None else d.cdf(X[:,i],given=X[:,c])
        U[:,i]=p
    return U
def dkw(p):  # p should be uniform
    n=len(p); s=np.sort(p); i=np.arange(1,n+1)
    return max(np.max(i/n-s),np.max(s-(i-1)/n))
m3=GlobalHierarchicalModel([{"distribution":WeibullDistribution(alpha=2,beta=1.5,gamma=0.2)},
  {"distribution":LogNormalDistribution(),"conditional_on":0,"parameters":{"mu":DependenceFunction(inc),"sigma":DependenceFunction(dec)}},
  {"distribution":VonMisesDistribution(f_kappa=2.0),"conditional_on":1,"parameters":{"mu":DependenceFunction(lambda x,a=-1.0,b=0.3:a+b*x)}}])
for n in [1000,100000]:
    for seed in [1,2,3]:
        t=time.time()
        X=m3.draw_sample(n,random_state=seed)
        # wrap VM
        P=rosen(m3,X)
        # vonmises cdf on wrapped values: map to [mu-pi, mu+pi]
        mu=m3.distributions[2].conditional_parameters['mu'](X[:,1])
        xw=mu+((X[:,2]-mu+np.pi)%(2*np.pi))-np.pi
        P[:,2]=sts.vonmises.cdf(xw,2.0,loc=mu)
        ds=[dkw(P[:,i]) for i in range(3)]
        # quadrant independence
        worst=0
        for i,j in [(0,1),(0,2),(1,2)]:
            for a,b in itertools.product([0.25,0.5,0.75],repeat=2):
                worst=max(worst,abs(np.mean((P[:,i]<=a)&(P[:,j]<=b))-a*b))
        print(n,seed,[round(d,4) for d in ds],'eps',round(eps(n),4),'quad',round(worst,4),'eps_q',round(eps(n,1e-12/27),4),round(time.time()-t,2))
# mutant-like: condition on shuffled
X=m3.draw_sample(100000,random_state=1)
Xs=X.copy(); Xs[:,0]=np.random.default_rng(0).permutation(Xs[:,0])
P=rosen(m3,Xs); print('shuffled col0 -> dkw of U1', dkw(P[:,1]))
