import numpy as np, warnings, itertools
from virocon import *
def _power3(x, a=0.1000, b=1.489, c=0.1901): return a + b * x**c
def _exp3(x, a=0.0400, b=0.1748, c=-0.2243): return a + b * np.exp(c * x)
bounds = [(0, None), (0, None), (None, None)]
m = GlobalHierarchicalModel([{"distribution": WeibullDistribution(alpha=2.776, beta=1.471, gamma=0.8888)},
 {"distribution": LogNormalDistribution(),"conditional_on": 0,"parameters": {"mu": DependenceFunction(_power3,bounds), "sigma": DependenceFunction(_exp3,bounds)}}])
tot=0;bad=0;warned=0
for n in [200,2000]:
  s=m.draw_sample(n,random_state=n)
  x,y=s.T
  for alpha in [0.01,0.05,0.2]:
    for deg in [3,15]:
      for ae in [0.01,0.05,0.2]:
        for cls in [AndContour,OrContour]:
            np.random.seed(1)
            with warnings.catch_warnings(record=True) as w:
                warnings.simplefilter('always')
                c=cls(m,alpha,deg_step=deg,sample=s,allowed_error=ae)
            uw=[q for q in w if issubclass(q.category,UserWarning) and 'precision' in str(q.message)]
            co=np.array([[float(np.ravel(a)[0]) for a in row] for row in c.coordinates])
            tot+=1
            if uw: warned+=1; continue
            pts=co[:-1] if cls is AndContour else co[:-3]
            for p in pts:
                pe=np.mean((x>p[0])&(y>p[1])) if cls is AndContour else np.mean((x>p[0])|(y>p[1]))
                if abs(pe-alpha)>ae*alpha+1e-12: bad+=1; print('BAD',cls.__name__,n,alpha,deg,ae,p,pe)
print(tot,warned,bad)
