#!/usr/bin/env python3
"""(Re)generates section 8 of DESIGN.md (between the markers) from tools/mutants.json, tools/mutant_results.json,
tools/seeded.json and seeded/*/meta.json."""
import json
import os
import re

HERE = os.path.dirname(os.path.dirname(os.path.abspath(__file__)))
BEGIN, END = "<!-- BEGIN GENERATED SECTION 8 -->", "<!-- END GENERATED SECTION 8 -->"


def main():
    muts = json.load(open(os.path.join(HERE, "tools", "mutants.json")))
    res = json.load(open(os.path.join(HERE, "tools", "mutant_results.json")))
    seeds = json.load(open(os.path.join(HERE, "tools", "seeded.json")))
    out = [BEGIN, "", "## 8. Demonstrated detection: which checks catch which changes", "",
           "Every row is a change to virocon that still imports; the check named was run (quick tier) against a scratch worktree "
           "with the change applied (`tools/mutate.py`, results in `tools/mutant_results.json`). `caught by` gives the first "
           "violation signature reported (exit 1 + VIOLATION line). Mutants marked *equivalent* do not violate the property as "
           "worded (reason given) and are skipped.", "",
           "### 8.1 Hand-written mutants (from the M lists of §4)", "",
           "| mutant | what it changes | check | caught by (first signature) |", "|---|---|---|---|"]
    n_det = n_all = 0
    for m in muts:
        if m.get("helper"):
            continue
        if m.get("equivalent"):
            out.append(f"| {m['id']} | {m.get('note', '')} | {', '.join(m['props'])} | *not a violation*: {m['equivalent']} |")
            continue
        r = res.get(m["id"], {}).get("checks", {})
        for p in m["props"]:
            n_all += 1
            rr = r.get(p)
            if rr is None:
                cell = "(not run)"
            elif rr["rc"] == 1:
                n_det += 1
                sig = rr.get("first_signature") or ""
                mm = re.search(r"signature=(\{.*?\})(?: cases|$)", sig)
                cell = "`" + (mm.group(1) if mm else sig)[:150].replace("|", "/") + "`"
            else:
                cell = f"**MISSED** (rc={rr['rc']})"
            out.append(f"| {m['id']} | {m.get('note', '')[:110]} | {p} | {cell} |")
    out += ["", f"{n_det} of {n_all} (mutant, check) pairs detected.", "",
            "### 8.2 Independently seeded changes (sub-agents, property text only)", "",
            "Each was written by a fresh sub-agent that saw only the property text and its own worktree; confirmed independently "
            "(`tools/confirm_seed.sh`: demo passes without / fails with the patch, full pinned suite still 90 passed with it) and "
            "kept under `/verif/seeded/<id>/` (patch.diff, demo.py, meta.json).", "",
            "| seed | property | what it needs to manifest | first run | after strengthening |", "|---|---|---|---|---|"]
    for s in seeds:
        meta = {}
        mp = os.path.join(HERE, "seeded", s["id"], "meta.json")
        if os.path.exists(mp):
            meta = json.load(open(mp))
        note = meta.get("confirmed", {}).get("note", "")
        first = "missed / harness error" if ("missed" in note or "harness error" in note or "not in the C07 alphabet" in note) else "caught"
        r = res.get(s["id"], {}).get("checks", {})
        now = ", ".join(f"{p}: {'caught' if v['rc'] == 1 else 'MISSED'}" for p, v in r.items()) or "(not re-run)"
        needs = (meta.get("needs") or s.get("note", "")).replace("\n", " ").replace("|", "/")[:230]
        out.append(f"| {s['id']} | {', '.join(s['props'])} | {needs} | {first} | {now}{'; ' + note[:260].replace('|', '/') if first != 'caught' else ''} |")
    # first-run statistics per wave (a = first round ... f = sixth round)
    import collections
    waves = collections.OrderedDict()
    for s_ in seeds:
        mm = re.match(r"s\d\d([a-h]?)_", s_["id"])
        w = (mm.group(1) if mm else "") or "a"
        meta = {}
        mp = os.path.join(HERE, "seeded", s_["id"], "meta.json")
        if os.path.exists(mp):
            meta = json.load(open(mp))
        note = meta.get("confirmed", {}).get("note", "")
        missed = ("missed" in note or "harness error" in note.lower() or "not in the C07 alphabet" in note)
        waves.setdefault(w, [0, 0])
        waves[w][0] += 1
        waves[w][1] += 0 if missed else 1
    out += ["", "First-run outcome per seeding round (target check, quick tier, as the check stood when the seed arrived; every "
            "miss was followed by a generalised strengthening, after which all seeds are caught):", "",
            "| round | seeds | caught at first run by the target check | instruction to the sub-agents |", "|---|---|---|---|"]
    how = {"a": "property text only", "b": "property text + 'not the mechanism of round a'", "c": "+ suggested mechanism areas (mine) to diversify",
           "d": "+ suggested mechanism areas", "e": "+ suggested mechanism areas", "f": "property text + list of the five used mechanisms, free choice otherwise",
           "g": "property text + list of the six used mechanisms, free choice otherwise (15 properties)",
           "h": "property text only, free choice of mechanism (6 properties, short final round)"}
    for w, (n_, k_) in waves.items():
        out.append(f"| {w} | {n_} | {k_} | {how.get(w, '')} |")
    out += ["", END]
    p = os.path.join(HERE, "DESIGN.md")
    txt = open(p).read()
    block = "\n".join(out)
    if BEGIN in txt:
        txt = txt[:txt.index(BEGIN)] + block + txt[txt.index(END) + len(END):]
    else:
        txt = txt.rstrip("\n") + "\n\n" + block + "\n"
    open(p, "w").write(txt)
    print(f"section 8 written: {n_det}/{n_all} mutant pairs, {len(seeds)} seeds")


if __name__ == "__main__":
    main()
