#!/usr/bin/env python3
"""Smoke test of the replay path: for every check take the first recorded sample case of its evidence file, wrap it into a
replay file and run ./check Cxx --replay on it (must exit 0: the case holds on the unchanged tree, or 0 with KNOWN-FINDING)."""
import json, os, subprocess, sys, tempfile
HERE = os.path.dirname(os.path.dirname(os.path.abspath(__file__)))
man = json.load(open(os.path.join(HERE, "MANIFEST.json")))
bad = 0
for c in man["checks"]:
    pid = c["property_id"]
    ev = json.load(open(os.path.join(HERE, "evidence", f"{pid}.json")))
    case = next((s for s in ev["coverage"]["samples"] if isinstance(s, dict) and not any(k in s for k in ("protocol_histories", "histories", "refit_histories"))), None)
    if case is None:
        print(pid, "no replayable sample"); continue
    with tempfile.NamedTemporaryFile("w", suffix=".json", delete=False) as f:
        json.dump({"property": pid, "sig": {}, "detail": {}, "case": case}, f)
    r = subprocess.run([os.path.join(HERE, "check"), pid, "--replay", f.name], capture_output=True, text=True, cwd=HERE)
    os.unlink(f.name)
    last = (r.stdout.strip().splitlines() or [""])[-1][:110]
    print(pid, "rc=%d" % r.returncode, last)
    bad += r.returncode not in (0,)
sys.exit(1 if bad else 0)
