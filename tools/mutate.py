#!/usr/bin/env python3
"""Mutation harness: apply small source mutations to a scratch worktree of /repo and run checks against it.

  tools/mutate.py [--suite] [--tier quick] [--only ID[,ID]] [--props C01,C02]

Mutants are listed in tools/mutants.json: {id, props:[...], file, old, new, note}. Each mutant is applied to a fresh
worktree of /repo HEAD under /tmp (removed afterwards); the check runs with VIROCON_REPO pointing there and
VERIF_OUT=/tmp/vout_mut_<pid> (one directory per run, so that runs may overlap) so that /verif/evidence is not touched. A patch file (seeded/<id>/patch.diff) can be given
instead of old/new with {"patch": "seeded/<id>/patch.diff"}.
"""
import argparse
import json
import os
import shutil
import subprocess
import sys
import tempfile
import time

HERE = os.path.dirname(os.path.dirname(os.path.abspath(__file__)))
SUITE = ["/venv/bin/python", "-m", "pytest", "-q", "-p", "no:cacheprovider", "--timeout=900", "-n", "12", "-x",
         "--deselect", "tests/test_workflows.py::test_v_hs_hd_contour", "--no-cov"]


def sh(cmd, **kw):
    return subprocess.run(cmd, capture_output=True, text=True, **kw)


def main():
    ap = argparse.ArgumentParser()
    ap.add_argument("--suite", action="store_true", help="also run the pinned test suite on the mutant")
    ap.add_argument("--tier", default="quick")
    ap.add_argument("--only", default=None)
    ap.add_argument("--props", default=None)
    ap.add_argument("--file", default=os.path.join(HERE, "tools", "mutants.json"))
    args = ap.parse_args()
    muts = json.load(open(args.file))
    if args.only:
        ids = set(args.only.split(","))
        muts = [m for m in muts if m["id"] in ids]
    if args.props:
        ps = set(args.props.split(","))
        muts = [m for m in muts if ps & set(m["props"])]
    results = []
    for m in muts:
        if m.get("equivalent"):
            print(f"{m['id']:34s} skipped (documented as equivalent / outside the wording)")
            continue
        wt = tempfile.mkdtemp(prefix="mut_", dir="/tmp")
        os.rmdir(wt)
        r = sh(["git", "-C", "/repo", "worktree", "add", "-q", "--detach", wt, "HEAD"])
        if r.returncode:
            print("worktree failed", r.stderr)
            continue
        try:
            if "patch" in m:
                r = sh(["git", "-C", wt, "apply", os.path.join(HERE, m["patch"])])
                if r.returncode:
                    print(f"{m['id']}: PATCH DOES NOT APPLY: {r.stderr.strip()[:200]}")
                    results.append((m["id"], "patch-failed", {}))
                    continue
            else:
                edits = m.get("edits") or [{"file": m["file"], "old": m["old"], "new": m["new"], "count": m.get("count", 1)}]
                failed = False
                for e in edits:
                    p = os.path.join(wt, e["file"])
                    s = open(p).read()
                    if s.count(e["old"]) != e.get("count", 1):
                        print(f"{m['id']}: old string occurs {s.count(e['old'])} times in {e['file']}, expected {e.get('count', 1)}")
                        failed = True
                        break
                    open(p, "w").write(s.replace(e["old"], e["new"]))
                if failed:
                    results.append((m["id"], "no-match", {}))
                    continue
            env = dict(os.environ, VIROCON_REPO=wt, VERIF_OUT=f"/tmp/vout_mut_{os.getpid()}")
            row = {}
            for prop in m["props"]:
                t = time.time()
                r = sh([os.path.join(HERE, "check"), prop, "--tier", args.tier], env=env, cwd=HERE)
                sigs = sorted({l.strip()[:160] for l in r.stdout.splitlines() if l.strip().startswith("signature=")})
                row[prop] = {"rc": r.returncode, "s": round(time.time() - t, 1), "sigs": sigs[:4]}
                if r.returncode == 2:
                    row[prop]["err"] = [l for l in r.stdout.splitlines() if "HARNESS" in l or "Error" in l][:3]
            suite = None
            if args.suite:
                env2 = {k: v for k, v in os.environ.items() if k != "VIROCON_VERIF"}
                env2["PYTHONPATH"] = wt
                r = sh(SUITE, cwd=wt, env=env2)
                tail = [l for l in r.stdout.splitlines() if " passed" in l or " failed" in l or "error" in l.lower()][-1:]
                suite = {"rc": r.returncode, "tail": tail}
            results.append((m["id"], row, suite))
            det = {p: ("DETECTED" if v["rc"] == 1 else ("HARNESS-ERR" if v["rc"] == 2 else "missed")) for p, v in row.items()}
            print(f"{m['id']:34s} {det} suite={suite} {m.get('note', '')[:60]}", flush=True)
            for p, v in row.items():
                for sg in v["sigs"][:2]:
                    print("      ", p, sg)
                if v.get("err"):
                    print("      ", v["err"])
        finally:
            sh(["git", "-C", "/repo", "worktree", "remove", "--force", wt])
            shutil.rmtree(wt, ignore_errors=True)
    shutil.rmtree(f"/tmp/vout_mut_{os.getpid()}", ignore_errors=True)
    # persistent record (merged): tools/mutant_results.json
    rp = os.path.join(HERE, "tools", "mutant_results.json")
    try:
        rec = json.load(open(rp))
    except Exception:
        rec = {}
    head = sh(["git", "-C", "/repo", "rev-parse", "--short", "HEAD"]).stdout.strip()
    for mid, row, suite in results:
        if isinstance(row, dict):
            rec[mid] = {"repo_head": head, "tier": args.tier,
                        "checks": {p: {"rc": v["rc"], "first_signature": (v["sigs"][0] if v["sigs"] else None)} for p, v in row.items()},
                        "suite": suite}
    json.dump(rec, open(rp, "w"), indent=1, sort_keys=True)
    missed = [i for i, row, _ in results if isinstance(row, dict) and any(v["rc"] != 1 for v in row.values())]
    print(f"{len(results)} mutants, missed/not-detected: {missed}")


if __name__ == "__main__":
    main()
