#!/bin/bash
# tools/confirm_seed.sh <seed-id> <dir with patch.diff demo.py meta.json> <property> [check ids...]
# Confirms a seeded change independently in a fresh scratch worktree of /repo HEAD:
#   demo passes without the patch, fails with it; pinned suite still passes with it; then runs the given checks
#   against the patched worktree and records everything in /verif/seeded/<seed-id>/.
set -u
ID="$1"; SRC="$2"; PROP="$3"; shift 3
CHECKS="${*:-$PROP}"  # remaining arguments = checks to run (default: the property itself)
WT=$(mktemp -d /tmp/confirm_XXXX); rmdir "$WT"
git -C /repo worktree add -q --detach "$WT" HEAD || exit 2
DEST=/verif/seeded/$ID; mkdir -p "$DEST"
cp "$SRC/patch.diff" "$SRC/demo.py" "$DEST/" 2>/dev/null
export PYTHONDONTWRITEBYTECODE=1
( cd "$WT" && PYTHONPATH="$WT" /venv/bin/python -W ignore "$DEST/demo.py" >/tmp/demo0.log 2>&1 ); D0=$?
git -C "$WT" apply "$DEST/patch.diff" || { echo "PATCH DOES NOT APPLY"; git -C /repo worktree remove --force "$WT"; exit 2; }
( cd "$WT" && PYTHONPATH="$WT" /venv/bin/python -W ignore "$DEST/demo.py" >/tmp/demo1.log 2>&1 ); D1=$?
SUITE=$( cd "$WT" && env -u VIROCON_VERIF PYTHONPATH="$WT" /venv/bin/python -m pytest -q -p no:cacheprovider --no-cov --timeout=900 -n 12 2>&1 | tail -1 )
RES=""
for c in $CHECKS; do
  OUT=$( cd /verif && VIROCON_REPO="$WT" VERIF_OUT=/tmp/vout_seed ./check "$c" --tier quick 2>&1 ); RC=$?
  SIG=$(echo "$OUT" | grep -m2 "signature=" | cut -c1-220 | tr '\n' ' ')
  RES="$RES $c:rc=$RC"
  echo "check $c rc=$RC $SIG"
done
git -C /repo worktree remove --force "$WT"; rm -rf "$WT" /tmp/vout_seed
echo "demo without patch: exit $D0; with patch: exit $D1; suite with patch: $SUITE; checks:$RES"
/venv/bin/python - "$ID" "$SRC" "$PROP" "$D0" "$D1" "$SUITE" "$RES" <<'EOF'
import json, sys, os
sid, src, prop, d0, d1, suite, res = sys.argv[1:8]
meta = {}
try:
    meta = json.load(open(os.path.join(src, "meta.json")))
except Exception:
    pass
meta.update({"id": sid, "property": prop, "confirmed": {"demo_without_patch_exit": int(d0), "demo_with_patch_exit": int(d1),
             "pinned_suite_with_patch": suite, "checks_quick_against_patched_worktree": res.strip(),
             "how": "tools/confirm_seed.sh: fresh worktree of /repo HEAD, git apply patch.diff, demo.py, full pinned suite (-n 12), ./check <id> --tier quick with VIROCON_REPO=<worktree>"}})
json.dump(meta, open(f"/verif/seeded/{sid}/meta.json", "w"), indent=1)
EOF
