#!/bin/bash
# tools/run_all.sh <tier> <seed> [outdir]  - runs every registered check once, prints rc and wall time per check
TIER="${1:-quick}"; SEED="${2:-0}"; OUT="${3:-/tmp/vout_all_$TIER_$SEED}"
cd /verif
for c in $(/venv/bin/python -c "import json;print(' '.join(x['property_id'] for x in json.load(open('MANIFEST.json'))['checks']))"); do
  S=$(date +%s.%N)
  VERIF_SEED=$SEED VERIF_OUT="$OUT" ./check $c --tier $TIER > "$OUT.$c.log" 2>&1; RC=$?
  E=$(date +%s.%N)
  printf "%s tier=%s seed=%s rc=%s wall=%.0fs %s\n" $c $TIER $SEED $RC $(echo "$E - $S" | bc) "$(grep -c '^VIOLATION' $OUT.$c.log) violations, $(grep -c '^KNOWN-FINDING' $OUT.$c.log) known"
done
