#!/bin/bash
# tools/run_all.sh <tier> <seed> [outdir]  - runs every registered check once, prints rc and wall time per check.
# Without outdir the evidence files under /verif/evidence are rewritten (what has to be committed);
# with outdir evidence and replays go there (VERIF_OUT).
TIER="${1:-quick}"; SEED="${2:-0}"; OUT="${3:-}"
LOGS=/tmp/runall_logs_${TIER}_${SEED}; mkdir -p "$LOGS"
cd /verif
for c in $(/venv/bin/python -c "import json;print(' '.join(x['property_id'] for x in json.load(open('MANIFEST.json'))['checks']))"); do
  S=$(date +%s.%N)
  if [ -n "$OUT" ]; then VERIF_SEED=$SEED VERIF_OUT="$OUT" ./check $c --tier $TIER > "$LOGS/$c.log" 2>&1; else VERIF_SEED=$SEED ./check $c --tier $TIER > "$LOGS/$c.log" 2>&1; fi
  RC=$?
  E=$(date +%s.%N)
  printf "%s tier=%s seed=%s rc=%s wall=%.0fs %s\n" $c $TIER $SEED $RC $(echo "$E - $S" | bc) "$(grep -c '^VIOLATION' $LOGS/$c.log) violations, $(grep -c '^KNOWN-FINDING' $LOGS/$c.log) known"
done
