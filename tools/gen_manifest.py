#!/usr/bin/env python3
"""Regenerates /verif/MANIFEST.json from the table below (keeps it schema-valid at all times)."""
import json
import os
import sys

HERE = os.path.dirname(os.path.dirname(os.path.abspath(__file__)))

BASELINE = ("cd /repo && env -u VIROCON_VERIF /venv/bin/python -m pytest -ra -q -p no:cacheprovider --timeout=900 "
            "--continue-on-collection-errors")

# id -> (level, technique, text, note, design_ref)
CHECKS = {
    "C10": ("exploration",
            "bounded-exhaustive enumeration of all data vectors (len<=4/5) x all slicer options on the real code; "
            "count/boundary oracle",
            "Every data vector of length 1..L over an edge-hitting value lattice (both float spellings of each decimal), "
            "in every order, against every option combination of the three slicers is executed on the real slicer "
            "and judged by a partition oracle stated on counts and reported boundaries (exactly-one membership, "
            "mask/position alignment, boundary grid, references, differential drop rule, RuntimeError iff too few).",
            "numpy; the lattice (continuous values between lattice points are outside the bound)", "DESIGN.md §4 C10"),
}

CHECKS.update({
    "C05": ("exploration",
            "bounded-exhaustive lattice (family x parameter grid x call mode x argument kind x point grid) on the real "
            "code against mpmath closed forms",
            "All 11 families (7 shipped + 4 ScipyDistribution subclasses, one with two shape parameters) over a multi-decade parameter grid; every "
            "method, every call mode incl. every single-parameter override, every argument kind; judged against the "
            "documented closed forms in 40-digit mpmath (value, monotonicity, support, both round trips, pdf = cdf "
            "difference, explicit == constructed to 2e-15).",
            "mpmath closed forms; scipy special functions trusted up to the stated bands (1e-9 rel.; von Mises 1e-7 "
            "rel. + 1e-12 abs.)", "DESIGN.md §4 C05"),
    "C08": ("exploration",
            "bounded-exhaustive lattice (template x every fixed/dependent partition x shape x coefficient source x "
            "given kind x method) on the real code against one-at-a-time template evaluation",
            "Every family as template, every partition of its parameters, every shape assignment, four coefficient "
            "sources (signature defaults, assigned, default 1, chained DependenceFunction), all broadcast shapes used "
            "by IFORM/ISORM/HDC; reference is the template constructed with theta(g) computed from the raw functions.",
            "template instances (anchored by C05)", "DESIGN.md §4 C08"),
})

CHECKS.update({
    "C11": ("exploration",
            "bounded-exhaustive lattice (family x every subset of fixed parameters x fixed value x stage x method x "
            "data set) on the real code",
            "Every family incl. von Mises and ScipyDistribution subclasses, every non-empty subset of fixed parameters, "
            "two fixed values each; construction, evaluation (vs an instance built with plain values), MLE/LSQ fit, "
            "ConditionalDistribution.fit and GlobalHierarchicalModel.fit; fixed value to 1e-12 after fitting, free "
            "parameters estimated, likelihood not decreased, fixed value for every conditioning value.",
            "data sets are a fixed finite family (own-family and other-family samples)", "DESIGN.md §4 C11"),
    "C13": ("exploration",
            "bounded-exhaustive lattice (sample x zeros x ties x weight spec x weight scale x delta x method x data "
            "order) on the real code against an independent weighted linear regression (numpy lstsq)",
            "Every weight specification incl. arrays at four scales, fixed and free delta, four data orders with "
            "weights travelling with their observations; alpha/beta to 1e-8 of the independent regression, free delta "
            "a local minimiser of the x-space error, order invariance.",
            "numpy.linalg.lstsq; plotting positions are full-sample ranks", "DESIGN.md §4 C13"),
})

CHECKS.update({
    "C01": ("exploration",
            "bounded-exhaustive lattice (family tuples x every conditional_on structure x alpha x n_points x contour "
            "class) on the real code; Rosenblatt-radius oracle with mpmath beta",
            "2-D: all 8x8 family pairs x both structures; 3-D: core families^3 x all 6 structures; 4-D: cyclic family "
            "assignments x all 24 structures; every contour point mapped back with the model's own cdfs (scalar given) "
            "must have norm beta (mpmath reference), directions distinct, 2-D angles 2 pi k/n, max x0 = marginal quantile.",
            "the model's own cdfs (anchored by C05/C08); alpha grid", "DESIGN.md §4 C01"),
    "C02": ("exploration",
            "bounded-exhaustive lattice (model x alpha x limits kind x cell sizes) on the real code; cell probabilities "
            "recomputed by explicit loops, region/threshold oracle",
            "2-D and 3-D models incl. a multi-modal one; default/generous/tight/reversed limits; scalar, isotropic and "
            "anisotropic deltas; documented cell probabilities, fm = least dense enclosed cell, content bracket, "
            "RuntimeWarning iff the grid cannot hold 1-alpha.",
            "model cdfs; grid read back from the contour object", "DESIGN.md §4 C02"),
    "C03": ("exploration",
            "bounded-exhaustive lattice (point cloud x n x alpha x all 19 divisors of 360) on the real code; "
            "order-statistic bracket oracle for every polygon edge",
            "Every edge of the polygon must lie on a line whose offset along its normal is between the order statistics "
            "bracketing every definition of the empirical (1-alpha)-quantile; normals advance by exactly the step; "
            "exactly 360/step vertices; default sample size int(100/alpha).",
            "numpy partition; orientation/start angle not prescribed", "DESIGN.md §4 C03"),
    "C04": ("exploration",
            "bounded-exhaustive lattice (model sample x n x alpha x deg_step x allowed_error x theta range x AND/OR) on the "
            "real code; exceedance recomputed per point",
            "Every searched point on its ray with recomputed exceedance within allowed_error*alpha unless the precision "
            "warning was emitted; documented closure; OR points dropped only when legitimately outside 1.1*max "
            "(monotonicity argument), never altered; construction repeatable.",
            "the precision warning exempts a whole contour", "DESIGN.md §4 C04"),
    "C15": ("exploration",
            "bounded-exhaustive: all k-subsets (k<=6/7) of a 4x4 lattice x scalings x flags for the line sorter, plus the "
            "C02 grid family for HDC boundary cells, on the real code; numpy-shift boundary + union-find oracle",
            "Returned coordinates equal (as multiset) the boundary cells (3^n neighbourhood) of the region {density>=fm}; "
            "single 2-D region in line-sorter order; one coordinate set per connected component; the sorter returns a "
            "permutation for every planar point set of the small scope and for digital discs.",
            "region from fm (C02); ties at fm skipped (counted)", "DESIGN.md §4 C15"),
})

CHECKS.update({
    "C17": ("exploration",
            "bounded-exhaustive enumeration of all lattice polyline pairs and all star polygons x step variants on the "
            "real code; exact rational (fractions.Fraction) geometry oracle",
            "(a) every pair of lattice polylines in general position (decided exactly): returned crossings equal the "
            "exact ones as multisets; (b) every star polygon with radii {1,2,3} over 6..8 directions (3 translations) and "
            "IFORM/ISORM/DS contours x 8 step variants x swap_axis: abscissae unchanged, present iff crossing, ordinate "
            "= exact top (abscissa rounding of 1e-12 accepted), default abscissae as documented.",
            "fractions.Fraction on the exact float values", "DESIGN.md §4 C17"),
})

CHECKS.update({
    "C14": ("model_checking",
            "explicit-state BFS over all sequences of fit(f, data version) events on the real DependenceFunction objects "
            "until the canonical state set closes (4 dependency graphs) + bounded-exhaustive lattice of single fits",
            "A2: every order of fit calls incl. re-fits for chains/diamonds of dependence functions (state = last data, "
            "coefficients, _may_fit, reported conditioners) closes after <= 4 levels; every quiescent state equals an "
            "independent topological linear least-squares reference; all 6 declaration orders x fit/re-fit histories through "
            "ConditionalDistribution.fit. A1: 8 shapes x support sizes x 6 bounds kinds x 3 weights x 4 constraint kinds x 2 "
            "starts: inside bounds, constraints met, residual <= start, no better admissible neighbour, linear shapes = lstsq.",
            "numpy lstsq; optimiser tolerance as stated in the check; no separate model - every transition executes the "
            "real fit methods on fresh objects", "DESIGN.md §4 C14"),
    "C18": ("fault_enumeration",
            "exhaustive fault enumeration: every malformation class x every position x n_dim 1..4 x every carrier family, "
            "and all injector pairs for n_dim <= 3, each against its passing control, on the real constructors/fit/contours",
            "12 description injectors, 11 fit-call injectors (incl. falsy non-None fit descriptions) and 30 further malformations (HDC grids, non-finite points, 3-D "
            "models for 2-D contours, non-models, slicer options/reference keywords, weight keywords, fit methods): the call "
            "at which the malformed value is supplied must raise; the control must construct, fit and evaluate.",
            "any Exception type counts as rejection", "DESIGN.md §4 C18"),
})

CHECKS.update({
    "C07": ("exploration",
            "bounded-exhaustive lattice (family/structure x n x random_state kind x seed triple) on the real samplers; "
            "distribution-free DKW/Hoeffding bands at error probability 1e-12 per comparison",
            "Univariate: 11 families x 3 parameter points x n up to 1e5 (1e6 thorough); joint: 2-D both structures x family "
            "pairs, 3-D all 6 structures x 3 triples incl. von Mises and scalar-constant leaves: size/shape, reproducibility by "
            "int seed and Generator, different seeds differ, each Rosenblatt component uniform (DKW), pairs independent "
            "(3x3 Hoeffding).",
            "finite-sample bands: a bias below the band at the largest n is invisible; explicit-parameter cdf path (C05)",
            "DESIGN.md §4 C07"),
    "C20": ("exploration",
            "bounded-exhaustive lattice (contour class x semantics x path; plot option product; file sizes) on the real "
            "export/plot/load functions; files parsed and matplotlib artists read back",
            "save_contour_coordinates: path rule, header, row count, parsed values to 5e-7, order; plot_2D_contour: closed "
            "polyline, swap, sample and design-condition scatters, return value; isodensity grid handed to Axes.contour = "
            "model.pdf; dependence/histogram/marginal-quantile plots draw the model's values; dataset reader returns every "
            "row with its time stamp.",
            "matplotlib Agg; multi-region HDC save is a refusal", "DESIGN.md §4 C20"),
})

CHECKS.update({
    "C06": ("exploration",
            "bounded-exhaustive lattice (family pairs/triples x every structure x quantile points x input forms) on the real "
            "model; explicit product reference and independent Gauss-Legendre cubature of the implementation's pdf",
            "pdf = product of template densities with theta(g) from the raw dependence shapes for every input form; integral of "
            "the pdf over the orthant = 1; model.cdf = cubature over the lower-left orthant; marginal_pdf / marginal_cdf = "
            "cubature over the other variables; marginal_icdf exact for unconditional and inside the exact-binomial band "
            "for Monte-Carlo dims.",
            "cubature self-validated with k and 2k nodes (1e-6); 3-D cdf only in the thorough tier", "DESIGN.md §4 C06"),
    "C09": ("model_checking",
            "bounded-exhaustive: ALL 7! row orders of small matrices + fixed permutation family on large matrices, and "
            "explicit-state BFS over fit/re-fit histories on the real model objects (closes after 2 levels)",
            "Order invariance of the fitted model (closed-form estimators to 1e-9, optimiser-based to 2e-3); every interval "
            "fitted to exactly its own observations with exactly its dimension's method/weights (stand-alone fits); "
            "conditioning values = slicer references; dependence functions = independent lstsq of the estimates; the state "
            "after any history ending in fit(D_a) equals a fresh model fitted to D_a.",
            "the slicer is the membership reference (C10)", "DESIGN.md §4 C09"),
    "C12": ("exploration",
            "bounded-exhaustive lattice (family x regular parameter grid x n x data seed x start x scale factor) on the real "
            "MLE fits; likelihood and equivariance oracle",
            "LL(fit) >= LL(start), LL(fit) >= LL(generating), admissible parameters, scale equivariance (parameters within 1e-3 "
            "or equal attained likelihood after mapping back) for 10 families incl. fixed/free Weibull location (also negative), one parameter fixed at / away from its generating value with a re-fit from a polished start.",
            "own pdf for the likelihood (C05); data sets are a fixed finite family", "DESIGN.md §4 C12"),
    "C16": ("exploration",
            "bounded-exhaustive lattice (transform grid; models x quantile points; conditioning quantile x n x seed; IFORM "
            "option product) on the real code; mpmath, cubature and closed-form conditional references with DKW/binomial bands",
            "inverse(transform(x)) = x within 64 eps kappa, Jacobians analytic and by central differences, pdf = push-forward, "
            "integral 1, cdf = cubature and inside the binomial band of the empirical cdf, samples = inverse-transformed base "
            "samples, conditional_sample/cdf/icdf against the exact conditional (DKW + tail coverage), IFORM coordinates inside "
            "binomial bands of the exact push-forward and bit-reproducible with random_state.",
            "finite-sample bands at 1e-12; hard-coded model coefficients", "DESIGN.md §4 C16"),
    "C19": ("model_checking",
            "explicit-state BFS per predefined getter over histories of 22 evaluate/contour/plot/save/fit events on the real "
            "objects; canonical deep digests; search closes at 8 states per getter",
            "Every evaluation event leaves the exact deep digest of all models, templates, getter results and caller arrays "
            "unchanged, returns identical results when repeated and identical to the first result recorded for that state; "
            "fit(B) changes B only; the wrapper's fit leaves its template unchanged; two getter results share no mutable "
            "object; read-only inputs are accepted.",
            "worlds are deep-copied from a cached build after the copy was validated (identical digest, no shared mutable "
            "object), else rebuilt from scratch", "DESIGN.md §4 C19"),
})

NOT_APPLICABLE = {
}


def main():
    checks = []
    for pid, (level, tech, text, note, ref) in sorted(CHECKS.items()):
        checks.append({
            "property_id": pid,
            "quick_cmd": f"./check {pid} --tier quick",
            "thorough_cmd": f"./check {pid} --tier thorough",
            "evidence_file": f"/verif/evidence/{pid}.json",
            "replay_cmd_template": f"./check {pid} --replay {{path}}",
            "engine": "vmc",
            "level_claimed": {"category": level, "text": text, "design_ref": ref},
            "level_note": note,
            "technique": tech,
        })
    props = [json.loads(l)["id"] for l in open(os.path.join(HERE, "properties.jsonl"))]
    na = []
    for pid in props:
        if pid not in CHECKS:
            na.append({"property_id": pid,
                       "reason": NOT_APPLICABLE.get(pid, "check not built yet in this round (planned, see DESIGN.md §4); "
                                                         "not claimed until its machinery exists")})
    man = {
        "version": 1,
        "setup_cmd": "/venv/bin/pip install -q --no-index --find-links /opt/veriftools/wheels --target /verif/_vendor "
                     "mpmath jsonschema && /venv/bin/python -c \"import sys; sys.path.insert(0,'/verif/_vendor'); "
                     "import mpmath, jsonschema\"",
        "hooks": {
            "guard": "VIROCON_VERIF",
            "enable": "no hooks in /repo: virocon is pure Python and every check imports it from /repo's working tree "
                      "(PYTHONPATH=/repo, asserted at start-up); instrumentation is done by wrapping methods on the "
                      "harness side. ./check exports VIROCON_VERIF=1 (unused by /repo).",
            "baseline_off_cmd": BASELINE,
            "source_commits": [],
            "add_only": True,
        },
        "engines": [{
            "name": "vmc",
            "path": "/verif/vmc",
            "serves_properties": sorted(CHECKS),
            "kind_free_text": "hand-written bounded-exhaustive explorers run directly on the real virocon code: "
                              "lattice explorer (complete products of finite axes, 16-process pool) and explicit-state "
                              "history explorer (BFS over event histories with canonical state snapshots)",
        }],
        "checks": checks,
        "notes": "All checks: cwd=/verif, ./check <ID> --tier quick|thorough, exit 0 = held, exit 1 + VIOLATION line, "
                 "exit 2 = harness error. Known findings: /verif/known_findings.json. Seeded mutants: /verif/seeded/.",
        "not_applicable": na,
    }
    with open(os.path.join(HERE, "MANIFEST.json"), "w") as f:
        json.dump(man, f, indent=1)
    try:
        sys.path.insert(0, os.path.join(HERE, "_vendor"))
        import jsonschema
        jsonschema.validate(man, json.load(open(os.path.join(HERE, "schemas", "MANIFEST.schema.json"))))
        print("MANIFEST.json valid;", len(checks), "checks,", len(na), "not claimed")
    except ImportError:
        print("written (jsonschema not available for validation)")


if __name__ == "__main__":
    main()
