#!/usr/bin/env python3
"""Regenerates /verif/MANIFEST.json from the table below (keeps it schema-valid at all times)."""
import json
import os
import sys

HERE = os.path.dirname(os.path.dirname(os.path.abspath(__file__)))

BASELINE = ("cd /repo && env -u VIROCON_VERIF /venv/bin/python -m pytest -ra -q -p no:cacheprovider --timeout=900 "
            "--continue-on-collection-errors")

# id -> (level, technique, text, note, design_ref)
CHECKS = {
    "C10": ("exploration",
            "bounded-exhaustive enumeration of all data vectors (len<=4/5) x all slicer options on the real code; "
            "count/boundary oracle",
            "Every data vector of length 1..L over an edge-hitting value lattice (both float spellings of each decimal), "
            "in every order, against every option combination of the three slicers is executed on the real slicer "
            "and judged by a partition oracle stated on counts and reported boundaries (exactly-one membership, "
            "mask/position alignment, boundary grid, references, differential drop rule, RuntimeError iff too few).",
            "numpy; the lattice (continuous values between lattice points are outside the bound)", "DESIGN.md §4 C10"),
}

CHECKS.update({
    "C05": ("exploration",
            "bounded-exhaustive lattice (family x parameter grid x call mode x argument kind x point grid) on the real "
            "code against mpmath closed forms",
            "All 10 families (7 shipped + 3 ScipyDistribution subclasses) over a multi-decade parameter grid; every "
            "method, every call mode incl. every single-parameter override, every argument kind; judged against the "
            "documented closed forms in 40-digit mpmath (value, monotonicity, support, both round trips, pdf = cdf "
            "difference, explicit == constructed to 2e-15).",
            "mpmath closed forms; scipy special functions trusted up to the stated bands (1e-9 rel.; von Mises 1e-7 "
            "rel. + 1e-12 abs.)", "DESIGN.md §4 C05"),
    "C08": ("exploration",
            "bounded-exhaustive lattice (template x every fixed/dependent partition x shape x coefficient source x "
            "given kind x method) on the real code against one-at-a-time template evaluation",
            "Every family as template, every partition of its parameters, every shape assignment, four coefficient "
            "sources (signature defaults, assigned, default 1, chained DependenceFunction), all broadcast shapes used "
            "by IFORM/ISORM/HDC; reference is the template constructed with theta(g) computed from the raw functions.",
            "template instances (anchored by C05)", "DESIGN.md §4 C08"),
})

CHECKS.update({
    "C11": ("exploration",
            "bounded-exhaustive lattice (family x every subset of fixed parameters x fixed value x stage x method x "
            "data set) on the real code",
            "Every family incl. von Mises and ScipyDistribution subclasses, every non-empty subset of fixed parameters, "
            "two fixed values each; construction, evaluation (vs an instance built with plain values), MLE/LSQ fit, "
            "ConditionalDistribution.fit and GlobalHierarchicalModel.fit; fixed value to 1e-12 after fitting, free "
            "parameters estimated, likelihood not decreased, fixed value for every conditioning value.",
            "data sets are a fixed finite family (own-family and other-family samples)", "DESIGN.md §4 C11"),
    "C13": ("exploration",
            "bounded-exhaustive lattice (sample x zeros x ties x weight spec x weight scale x delta x method x data "
            "order) on the real code against an independent weighted linear regression (numpy lstsq)",
            "Every weight specification incl. arrays at four scales, fixed and free delta, four data orders with "
            "weights travelling with their observations; alpha/beta to 1e-8 of the independent regression, free delta "
            "a local minimiser of the x-space error, order invariance.",
            "numpy.linalg.lstsq; plotting positions are full-sample ranks", "DESIGN.md §4 C13"),
})

NOT_APPLICABLE = {
}


def main():
    checks = []
    for pid, (level, tech, text, note, ref) in sorted(CHECKS.items()):
        checks.append({
            "property_id": pid,
            "quick_cmd": f"./check {pid} --tier quick",
            "thorough_cmd": f"./check {pid} --tier thorough",
            "evidence_file": f"/verif/evidence/{pid}.json",
            "replay_cmd_template": f"./check {pid} --replay {{path}}",
            "engine": "vmc",
            "level_claimed": {"category": level, "text": text, "design_ref": ref},
            "level_note": note,
            "technique": tech,
        })
    props = [json.loads(l)["id"] for l in open(os.path.join(HERE, "properties.jsonl"))]
    na = []
    for pid in props:
        if pid not in CHECKS:
            na.append({"property_id": pid,
                       "reason": NOT_APPLICABLE.get(pid, "check not built yet in this round (planned, see DESIGN.md §4); "
                                                         "not claimed until its machinery exists")})
    man = {
        "version": 1,
        "setup_cmd": "/venv/bin/pip install -q --no-index --find-links /opt/veriftools/wheels --target /verif/_vendor "
                     "mpmath jsonschema && /venv/bin/python -c \"import sys; sys.path.insert(0,'/verif/_vendor'); "
                     "import mpmath, jsonschema\"",
        "hooks": {
            "guard": "VIROCON_VERIF",
            "enable": "no hooks in /repo: virocon is pure Python and every check imports it from /repo's working tree "
                      "(PYTHONPATH=/repo, asserted at start-up); instrumentation is done by wrapping methods on the "
                      "harness side. ./check exports VIROCON_VERIF=1 (unused by /repo).",
            "baseline_off_cmd": BASELINE,
            "source_commits": [],
            "add_only": True,
        },
        "engines": [{
            "name": "vmc",
            "path": "/verif/vmc",
            "serves_properties": sorted(CHECKS),
            "kind_free_text": "hand-written bounded-exhaustive explorers run directly on the real virocon code: "
                              "lattice explorer (complete products of finite axes, 16-process pool) and explicit-state "
                              "history explorer (BFS over event histories with canonical state snapshots)",
        }],
        "checks": checks,
        "notes": "All checks: cwd=/verif, ./check <ID> --tier quick|thorough, exit 0 = held, exit 1 + VIOLATION line, "
                 "exit 2 = harness error. Known findings: /verif/known_findings.json. Seeded mutants: /verif/seeded/.",
        "not_applicable": na,
    }
    with open(os.path.join(HERE, "MANIFEST.json"), "w") as f:
        json.dump(man, f, indent=1)
    try:
        sys.path.insert(0, os.path.join(HERE, "_vendor"))
        import jsonschema
        jsonschema.validate(man, json.load(open(os.path.join(HERE, "schemas", "MANIFEST.schema.json"))))
        print("MANIFEST.json valid;", len(checks), "checks,", len(na), "not claimed")
    except ImportError:
        print("written (jsonschema not available for validation)")


if __name__ == "__main__":
    main()
