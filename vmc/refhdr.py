"""Reference for highest-density contours: cell probabilities by explicit loops with scalar `given`,
region = cells with density >= fm, boundary by explicit 3^n neighbour test with numpy shifts
(no scipy.ndimage), connected components by union-find."""

import itertools
import warnings

import numpy as np

from virocon import HighestDensityContour

from . import zoo

MODELS = {
    "w_ln": (["WeibullDistribution", "LogNormalDistribution"], [None, 0], "A"),
    "ew_ew": (["ExponentiatedWeibullDistribution", "ExponentiatedWeibullDistribution"], [None, 0], "B"),
    "ln_normal": (["LogNormalDistribution", "NormalDistribution"], [None, 0], "A"),
    "w_ln_indep": (["WeibullDistribution", "LogNormalDistribution"], [None, None], "A"),
    "w_vm": (["WeibullDistribution", "VonMisesDistribution"], [None, 0], "A"),
    "w_vm_tilted": "custom",   # von Mises bands running diagonally: several regions with overlapping bounding boxes
    "chain3": (["WeibullDistribution", "LogNormalDistribution", "ExponentiatedWeibullDistribution"], [None, 0, 1], "A"),
    "star3": (["LogNormalDistribution", "WeibullDistribution", "NormalDistribution"], [None, 0, 0], "A"),
    "mixed3": (["ExponentiatedWeibullDistribution", "LogNormalDistribution", "WeibullDistribution"], [None, None, 1], "B"),
}
# generous explicit limits per model
GENEROUS = {"w_vm_tilted": [(0, 6), (-3.5, 16.5)], "w_ln": [(0, 9), (0, 12)], "ew_ew": [(0, 9), (0, 12)], "ln_normal": [(0, 9), (-3, 5)],
            "w_ln_indep": [(0, 9), (0, 8)], "w_vm": [(0, 9), (-3.5, 12.5)],
            "chain3": [(0, 8), (0, 10), (0, 12)], "star3": [(0, 8), (0, 10), (-3, 5)], "mixed3": [(0, 8), (0, 8), (0, 10)]}
TIGHT = {"w_vm_tilted": [(0.5, 3), (0, 9)], "w_ln": [(0.5, 3), (1, 3)], "ew_ew": [(0.5, 3), (0.5, 3)], "ln_normal": [(0.5, 3), (0, 1.5)],
         "w_ln_indep": [(0.5, 3), (0.8, 2.5)], "w_vm": [(0.5, 3), (-1, 1)],
         "chain3": [(0.5, 3), (1, 3), (0.5, 3)], "star3": [(0.5, 3), (1, 3), (0, 1.5)], "mixed3": [(0.5, 3), (0.8, 2.5), (1, 3)]}


def cell_probabilities(model, cond_on, centres, deltas):
    """P[i0,i1,..] = prod_d (F_d(c+delta/2 | c_cond) - F_d(c-delta/2 | c_cond)); explicit loops, scalar given."""
    n = len(centres)
    shape = tuple(len(c) for c in centres)
    P = np.ones(shape)
    for d in range(n):
        c = np.asarray(centres[d], dtype=float)
        h = deltas[d] / 2
        dist = model.distributions[d]
        sh = [1] * n
        if cond_on[d] is None:
            f = np.asarray(dist.cdf(c + h), dtype=float) - np.asarray(dist.cdf(c - h), dtype=float)
            sh[d] = len(c)
            P = P * f.reshape(sh)
        else:
            j = cond_on[d]
            cj = np.asarray(centres[j], dtype=float)
            f = np.empty((len(cj), len(c)))
            for a, g in enumerate(cj):
                f[a] = np.asarray(dist.cdf(c + h, given=float(g)), dtype=float) - np.asarray(dist.cdf(c - h, given=float(g)), dtype=float)
            sh[j], sh[d] = len(cj), len(c)
            # arrange axes (j, d) into their positions
            if j < d:
                P = P * f.reshape(sh)
            else:
                P = P * f.T.reshape(sh)
    return P


def boundary(region):
    """Region cells with at least one of the 3^n-1 neighbours outside the region or outside the grid."""
    n = region.ndim
    pad = np.pad(region, 1, constant_values=False)
    all_in = np.ones_like(region, dtype=bool)
    for off in itertools.product((0, 1, 2), repeat=n):
        sl = tuple(slice(o, o + s) for o, s in zip(off, region.shape))
        all_in &= pad[sl]
    return region & ~all_in


def components(mask):
    """Connected components (3^n connectivity) of the True cells; returns list of index arrays (rows = cells)."""
    idx = np.argwhere(mask)
    pos = {tuple(r): k for k, r in enumerate(idx)}
    parent = list(range(len(idx)))

    def find(a):
        while parent[a] != a:
            parent[a] = parent[parent[a]]
            a = parent[a]
        return a

    n = mask.ndim
    offs = [o for o in itertools.product((-1, 0, 1), repeat=n) if any(o)]
    for k, r in enumerate(idx):
        for o in offs:
            q = pos.get(tuple(r + np.array(o)))
            if q is not None:
                a, b = find(k), find(q)
                if a != b:
                    parent[a] = b
    groups = {}
    for k in range(len(idx)):
        groups.setdefault(find(k), []).append(k)
    return [idx[g] for g in sorted(groups.values(), key=lambda g: g[0])]


def _tilted_model():
    from virocon import DependenceFunction, GlobalHierarchicalModel, VonMisesDistribution

    def mu_lin(x, a=0.0, b=2.2):
        return a + b * x

    def kappa_const(x, a=3.0):
        return a + 0.0 * x

    descs = [{"distribution": zoo.make("WeibullDistribution", dict(alpha=2.5, beta=2.0, gamma=0.0))},
             {"distribution": VonMisesDistribution(), "conditional_on": 0,
              "parameters": {"kappa": DependenceFunction(kappa_const), "mu": DependenceFunction(mu_lin)}}]
    return GlobalHierarchicalModel(descs), [None, 0]


def model_for(mname):
    if MODELS[mname] == "custom":
        m, cond = _tilted_model()
        return m, cond, 2
    fams, cond, assign = MODELS[mname]
    model, _ = zoo.build_model(fams, cond, assign)
    return model, cond, len(fams)


def make_contour(mname, alpha, limits_kind, deltas_spec, seed):
    model, cond, n = model_for(mname)
    if limits_kind == "default":
        limits = None
    elif limits_kind == "generous":
        limits = list(GENEROUS[mname])
    elif limits_kind == "reversed":
        limits = [(b, a) for a, b in GENEROUS[mname]]
    elif limits_kind == "tight":
        limits = list(TIGHT[mname])
    elif limits_kind.startswith("cut"):
        # the first variable's upper limit cuts off a tail of k*alpha (k = 0.5 .. 3): grids that can barely / barely not hold
        # 1-alpha; the other variables get very wide limits so that their tails are negligible (< 0.01 alpha)
        k = float(limits_kind[3:])
        q0 = float(model.distributions[0].icdf(1 - k * alpha))
        wide = {"w_ln": (0, 250.0), "ew_ew": (0, 400.0), "ln_normal": (-9.0, 13.0), "w_ln_indep": (0, 250.0)}[mname]
        limits = [(0, q0), wide]
    else:
        raise ValueError(limits_kind)
    ref_lim = GENEROUS[mname] if limits_kind != "tight" else TIGHT[mname]
    if limits_kind.startswith("cut"):
        ref_lim = limits
    kind, val = deltas_spec
    if kind == "none":
        deltas = None
    elif kind == "scalar":
        deltas = val
    elif kind == "cells":  # per-dimension number of cells -> list of deltas (possibly anisotropic)
        deltas = [(hi - lo) / c for (lo, hi), c in zip(ref_lim, val)]
    else:
        raise ValueError(kind)
    np.random.seed(seed)
    with warnings.catch_warnings(record=True) as wl:
        warnings.simplefilter("always")
        c = HighestDensityContour(model, alpha, limits=limits, deltas=deltas)
    warned = any(issubclass(w.category, RuntimeWarning) and "1-alpha" in str(w.message) for w in wl)
    return model, cond, c, warned
