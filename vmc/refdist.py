"""Reference distributions: the documented closed forms in mpmath (40 digits). Independent of scipy/virocon.

Every function takes python floats (converted to mpf exactly) and returns mpf.
"""

import mpmath as mp

mp.mp.dps = 40

_0, _1 = mp.mpf(0), mp.mpf(1)


def _phi(z):
    return mp.ncdf(z)


def _phiinv(p):
    """Inverse standard normal cdf. Upper half by symmetry (1-p is exact at 40 digits for float p);
    lower half by Newton on ncdf (computed through erfc, accurate in the tail)."""
    p = mp.mpf(p)
    if p <= 0:
        return -mp.inf
    if p >= 1:
        return mp.inf
    if p > mp.mpf("0.5"):
        return -_phiinv(1 - p)
    if p == mp.mpf("0.5"):
        return _0
    t = mp.sqrt(-2 * mp.log(p))
    z = -(t - (mp.mpf("2.515517") + mp.mpf("0.802853") * t + mp.mpf("0.010328") * t * t) / (
        1 + mp.mpf("1.432788") * t + mp.mpf("0.189269") * t * t + mp.mpf("0.001308") * t ** 3))
    for _ in range(100):
        f = mp.erfc(-z / mp.sqrt(2)) / 2 - p
        step = f / mp.npdf(z)
        z = z - step
        if abs(step) < mp.mpf(10) ** (-36) * max(1, abs(z)):
            break
    return z


class Ref:
    """Base: subclasses define cdf, pdf, icdf (closed form or root finding), support."""

    lower = -mp.inf
    upper = mp.inf

    def icdf_numeric(self, p, lo, hi):
        p = mp.mpf(p)
        f = lambda x: self.cdf(x) - p
        lo, hi = mp.mpf(lo), mp.mpf(hi)
        for _ in range(2000):
            mid = (lo + hi) / 2
            if f(mid) < 0:
                lo = mid
            else:
                hi = mid
            if hi - lo <= mp.mpf(10) ** (-30) * abs(mid):  # relative criterion (quantiles may be 1e-30 small)
                break
        return (lo + hi) / 2


class Weibull(Ref):
    names = ("alpha", "beta", "gamma")

    def __init__(self, alpha, beta, gamma=0.0):
        self.a, self.b, self.g = mp.mpf(alpha), mp.mpf(beta), mp.mpf(gamma)
        self.lower = self.g

    def cdf(self, x):
        x = mp.mpf(x)
        if x <= self.g:
            return _0
        return -mp.expm1(-((x - self.g) / self.a) ** self.b)

    def pdf(self, x):
        x = mp.mpf(x)
        if x < self.g:
            return _0
        z = (x - self.g) / self.a
        if z == 0:
            return _0 if self.b > 1 else (self.b / self.a if self.b == 1 else mp.inf)
        return self.b / self.a * z ** (self.b - 1) * mp.exp(-z ** self.b)

    def icdf(self, p):
        p = mp.mpf(p)
        if p >= 1:
            return mp.inf
        return self.g + self.a * (-mp.log1p(-p)) ** (1 / self.b)


class LogNormal(Ref):
    names = ("mu", "sigma")
    lower = _0

    def __init__(self, mu, sigma):
        self.mu, self.s = mp.mpf(mu), mp.mpf(sigma)

    def cdf(self, x):
        x = mp.mpf(x)
        if x <= 0:
            return _0
        return _phi((mp.log(x) - self.mu) / self.s)

    def pdf(self, x):
        x = mp.mpf(x)
        if x <= 0:
            return _0
        return mp.npdf((mp.log(x) - self.mu) / self.s) / (x * self.s)

    def icdf(self, p):
        p = mp.mpf(p)
        if p <= 0:
            return _0
        return mp.exp(self.mu + self.s * _phiinv(p))


class LogNormalNormFit(LogNormal):
    """Log-normal parameterised by its mean mu_norm and standard deviation sigma_norm."""
    names = ("mu_norm", "sigma_norm")

    def __init__(self, mu_norm, sigma_norm):
        m, s = mp.mpf(mu_norm), mp.mpf(sigma_norm)
        s2 = mp.log(1 + s * s / (m * m))
        LogNormal.__init__(self, 0, 1)
        self.mu = mp.log(m) - s2 / 2
        self.s = mp.sqrt(s2)


class Normal(Ref):
    names = ("mu", "sigma")

    def __init__(self, mu, sigma):
        self.mu, self.s = mp.mpf(mu), mp.mpf(sigma)

    def cdf(self, x):
        return _phi((mp.mpf(x) - self.mu) / self.s)

    def pdf(self, x):
        return mp.npdf((mp.mpf(x) - self.mu) / self.s) / self.s

    def icdf(self, p):
        return self.mu + self.s * _phiinv(p)


class ExpWeibull(Ref):
    names = ("alpha", "beta", "delta")
    lower = _0

    def __init__(self, alpha, beta, delta):
        self.a, self.b, self.d = mp.mpf(alpha), mp.mpf(beta), mp.mpf(delta)

    def cdf(self, x):
        x = mp.mpf(x)
        if x <= 0:
            return _0
        return (-mp.expm1(-(x / self.a) ** self.b)) ** self.d

    def pdf(self, x):
        x = mp.mpf(x)
        if x <= 0:
            return _0
        z = (x / self.a) ** self.b
        return self.d * self.b / self.a * (x / self.a) ** (self.b - 1) * mp.exp(-z) * (-mp.expm1(-z)) ** (self.d - 1)

    def icdf(self, p):
        p = mp.mpf(p)
        if p <= 0:
            return _0
        if p >= 1:
            return mp.inf
        return self.a * (-mp.log1p(-p ** (1 / self.d))) ** (1 / self.b)


class GenGamma(Ref):
    names = ("m", "c", "lambda_")
    lower = _0

    def __init__(self, m, c, lambda_):
        self.m, self.c, self.l = mp.mpf(m), mp.mpf(c), mp.mpf(lambda_)

    def cdf(self, x):
        x = mp.mpf(x)
        if x <= 0:
            return _0
        return mp.gammainc(self.m, 0, (self.l * x) ** self.c, regularized=True)

    def sf(self, x):
        x = mp.mpf(x)
        if x <= 0:
            return _1
        return mp.gammainc(self.m, (self.l * x) ** self.c, mp.inf, regularized=True)

    def pdf(self, x):
        x = mp.mpf(x)
        if x <= 0:
            return _0
        return self.l ** (self.c * self.m) * self.c * x ** (self.c * self.m - 1) * mp.exp(-(self.l * x) ** self.c) / mp.gamma(self.m)

    def icdf(self, p):
        p = mp.mpf(p)
        if p <= 0:
            return _0
        if p >= 1:
            return mp.inf
        hi = mp.mpf(1) / self.l
        while self.cdf(hi) < p:
            hi *= 2
        return self.icdf_numeric(p, 0, hi)


class VonMises(Ref):
    """Density exp(kappa cos(x-mu)) / (2 pi I0(kappa)); cdf measured from mu - pi (one period)."""
    names = ("kappa", "mu")

    def __init__(self, kappa, mu):
        self.k, self.mu = mp.mpf(kappa), mp.mpf(mu)
        self.lower, self.upper = self.mu - mp.pi, self.mu + mp.pi
        self._norm = 2 * mp.pi * mp.besseli(0, self.k)

    def pdf(self, x):
        return mp.exp(self.k * mp.cos(mp.mpf(x) - self.mu)) / self._norm

    def cdf(self, x):
        x = mp.mpf(x)
        # unrolled: number of whole periods plus the integral within the period
        t = x - self.mu
        n = mp.floor((t + mp.pi) / (2 * mp.pi))
        t0 = t - 2 * mp.pi * n  # in [-pi, pi)
        # Fourier series: F(t) = 1/2 + t/(2pi) + (1/pi) sum_j I_j(k)/I_0(k) sin(j t)/j
        i0 = mp.besseli(0, self.k)
        s = mp.mpf(0)
        j = 1
        while True:
            term = mp.besseli(j, self.k) / i0 * mp.sin(j * t0) / j
            s += term
            if mp.besseli(j, self.k) / i0 / j < mp.mpf(10) ** (-36):
                break
            j += 1
            if j > 4000:
                break
        return n + mp.mpf("0.5") + t0 / (2 * mp.pi) + s / mp.pi

    def icdf(self, p):
        p = mp.mpf(p)
        if p <= 0:
            return self.lower
        if p >= 1:
            return self.upper
        return self.icdf_numeric(p, self.lower, self.upper)


class Gumbel(Ref):
    names = ("loc", "scale")

    def __init__(self, loc, scale):
        self.loc, self.sc = mp.mpf(loc), mp.mpf(scale)

    def cdf(self, x):
        return mp.exp(-mp.exp(-(mp.mpf(x) - self.loc) / self.sc))

    def pdf(self, x):
        z = (mp.mpf(x) - self.loc) / self.sc
        return mp.exp(-z - mp.exp(-z)) / self.sc

    def icdf(self, p):
        p = mp.mpf(p)
        if p <= 0:
            return -mp.inf
        if p >= 1:
            return mp.inf
        return self.loc - self.sc * mp.log(-mp.log(p))


class Gamma(Ref):
    names = ("a", "loc", "scale")

    def __init__(self, a, loc, scale):
        self.a, self.loc, self.sc = mp.mpf(a), mp.mpf(loc), mp.mpf(scale)
        self.lower = self.loc

    def cdf(self, x):
        x = mp.mpf(x)
        if x <= self.loc:
            return _0
        return mp.gammainc(self.a, 0, (x - self.loc) / self.sc, regularized=True)

    def pdf(self, x):
        x = mp.mpf(x)
        if x < self.loc:
            return _0
        z = (x - self.loc) / self.sc
        if z == 0:
            return _0 if self.a > 1 else (1 / self.sc if self.a == 1 else mp.inf)
        return z ** (self.a - 1) * mp.exp(-z) / (mp.gamma(self.a) * self.sc)

    def icdf(self, p):
        p = mp.mpf(p)
        if p <= 0:
            return self.loc
        if p >= 1:
            return mp.inf
        hi = self.loc + self.sc
        while self.cdf(hi) < p:
            hi = self.loc + (hi - self.loc) * 2
        return self.icdf_numeric(p, self.loc, hi)


class ExponWeibS(Ref):
    """scipy's exponweib(a, c, loc, scale): F(x) = (1 - exp(-z^c))^a, z = (x - loc) / scale (two shape parameters)."""
    names = ("a", "c", "loc", "scale")

    def __init__(self, a, c, loc, scale):
        self.a, self.c, self.loc, self.sc = mp.mpf(a), mp.mpf(c), mp.mpf(loc), mp.mpf(scale)
        self.lower = self.loc

    def cdf(self, x):
        x = mp.mpf(x)
        if x <= self.loc:
            return _0
        return (-mp.expm1(-((x - self.loc) / self.sc) ** self.c)) ** self.a

    def pdf(self, x):
        x = mp.mpf(x)
        if x <= self.loc:
            return _0
        z = (x - self.loc) / self.sc
        zc = z ** self.c
        return self.a * self.c / self.sc * z ** (self.c - 1) * mp.exp(-zc) * (-mp.expm1(-zc)) ** (self.a - 1)

    def icdf(self, p):
        p = mp.mpf(p)
        if p <= 0:
            return self.loc
        if p >= 1:
            return mp.inf
        return self.loc + self.sc * (-mp.log1p(-p ** (1 / self.a))) ** (1 / self.c)


class WeibullMin(Weibull):
    names = ("c", "loc", "scale")

    def __init__(self, c, loc, scale):
        Weibull.__init__(self, scale, c, loc)


REF = {
    "WeibullDistribution": Weibull,
    "LogNormalDistribution": LogNormal,
    "NormalDistribution": Normal,
    "LogNormalNormFitDistribution": LogNormalNormFit,
    "ExponentiatedWeibullDistribution": ExpWeibull,
    "GeneralizedGammaDistribution": GenGamma,
    "VonMisesDistribution": VonMises,
    "GumbelR": Gumbel,
    "GammaS": Gamma,
    "WeibullMinS": WeibullMin,
    "ExponWeibS": ExponWeibS,
}
