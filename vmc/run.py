"""Runner: ./check <ID> [--tier quick|thorough] [--replay PATH]"""

import argparse
import importlib
import json
import os
import sys
import time
import warnings

import numpy as np

from . import core


def write_evidence(ctx, n_viol, n_known):
    cov = {
        "evaluations": int(ctx.evaluations),
        "distinct_nontrivial": int(ctx.nontrivial),
        "rule": ctx.rule,
        "samples": ctx.samples[:12] or ["<none>"],
        "exhaustive": bool(ctx.exhaustive and not ctx.caps),
        "distinct_outcomes": len(ctx.outcomes),
        "counters": ctx.counts,
        "axes": {k: (v if len(v) <= 40 else {"distinct_values": len(v)}) for k, v in ctx.axes.items()},
        "caps_hit": ctx.caps,
        "known_findings_reported": n_known,
    }
    if ctx.level == "model_checking":
        cov["states"] = int(ctx.states)
        cov["transitions"] = int(ctx.transitions)
        cov["traces_validated_against_impl"] = int(ctx.traces)
    cov.update(core.jsonable(ctx.extra))
    rev, dirty = core.repo_revision()
    ev = {
        "property_id": ctx.prop,
        "tier": ctx.tier,
        "seed": int(ctx.seed),
        "level": ctx.level,
        "coverage": cov,
        "assumptions": ctx.assumptions,
        "wall_s": round(time.time() - ctx.t0, 2),
        "violations": int(n_viol),
        "repo_revision": rev,
        "repo_dirty": dirty,
    }
    os.makedirs(os.path.join(core.OUT, "evidence"), exist_ok=True)
    path = os.path.join(core.OUT, "evidence", f"{ctx.prop}.json")
    # self-validate against the schema when available
    try:
        import jsonschema

        sp = "/root/.vp/EVIDENCE.schema.json"
        if not os.path.exists(sp):
            sp = os.path.join(core.HERE, "schemas", "EVIDENCE.schema.json")
        with open(sp) as f:
            schema = json.load(f)
        jsonschema.validate(ev, schema)
    except ImportError:
        pass
    tmp = path + ".tmp"
    with open(tmp, "w") as f:
        json.dump(ev, f, indent=1, sort_keys=False)
    os.replace(tmp, path)
    return path


def emit_replay(prop, v):
    d = os.path.join(core.OUT, "replays", prop)
    os.makedirs(d, exist_ok=True)
    h = core.stable_hash({"sig": v["sig"], "case": v["case"]})
    path = os.path.join(d, f"{h}.json")
    rev, dirty = core.repo_revision()
    with open(path, "w") as f:
        json.dump({"property": prop, "sig": v["sig"], "detail": v["detail"], "case": v["case"],
                   "repo_revision": rev, "repo_dirty": dirty}, f, indent=1)
    return path


def main(argv=None):
    ap = argparse.ArgumentParser()
    ap.add_argument("prop")
    ap.add_argument("--tier", default=os.environ.get("VERIF_TIER", "quick"), choices=["quick", "thorough"])
    ap.add_argument("--replay", default=None)
    ap.add_argument("--nproc", type=int, default=None)
    args = ap.parse_args(argv)
    if args.nproc:
        core.NPROC = args.nproc
    prop = args.prop.upper()
    seed = int(os.environ.get("VERIF_SEED", "0") or 0)

    import virocon

    vf = os.path.realpath(virocon.__file__)
    if not vf.startswith(os.path.realpath(core.REPO) + os.sep):
        print(f"HARNESS-ERROR: virocon imported from {vf}, not from {core.REPO}")
        return 2

    modname = f"vmc.checks.{prop.lower()}"
    mod = importlib.import_module(modname)
    findings = core.load_findings()
    warnings.simplefilter("ignore")

    if args.replay:
        with open(args.replay) as f:
            rep = json.load(f)
        with np.errstate(all="ignore"):
            res = mod.run_case(rep["case"])
        if "harness_error" in res:
            print("HARNESS-ERROR:", res["harness_error"])
            print(res.get("trace", ""))
            return 2
        viol = res.get("viol", [])
        if not viol:
            print(f"REPLAY property={prop}: case holds (no violation reproduced)")
            return 0
        rc = 0
        for v in viol:
            sig = core.jsonable(v["sig"])
            kf = core.match_finding(prop, sig, findings)
            if kf:
                print(f"KNOWN-FINDING: property={prop} {kf['what']}")
            else:
                print(f"VIOLATION property={prop} replay={args.replay}")
                print("  sig:", json.dumps(sig))
                print("  detail:", json.dumps(core.jsonable(v.get('detail', {})))[:2000])
                rc = 1
        return rc

    ctx = core.Ctx(prop, mod.LEVEL, args.tier, seed, modname)
    try:
        with np.errstate(all="ignore"):
            mod.main(ctx)
    except Exception:
        import traceback

        traceback.print_exc()
        print(f"HARNESS-ERROR: check {prop} crashed")
        return 2
    if ctx.harness_errors:
        for he in ctx.harness_errors[:5]:
            print("HARNESS-ERROR:", he["harness_error"])
            print(he.get("trace", ""))
            print("  case:", json.dumps(he.get("case"))[:1500])
        print(f"HARNESS-ERROR: {len(ctx.harness_errors)} case(s) crashed the harness")
        return 2

    # classify violations
    known = {}
    unknown = {}
    for v in ctx.violations:
        kf = core.match_finding(prop, v["sig"], findings)
        if kf:
            known.setdefault(kf["id"], [kf, 0])[1] += 1
        else:
            key = json.dumps(v["sig"], sort_keys=True)
            unknown.setdefault(key, []).append(v)
    for fid, (kf, n) in sorted(known.items()):
        print(f"KNOWN-FINDING: property={prop} {kf['what']} [{fid}; {n} case(s) this run]")
    rc = 0
    n_unknown = sum(len(v) for v in unknown.values())
    for i, (key, vs) in enumerate(sorted(unknown.items(), key=lambda kv: kv[0])):
        if i >= 10:
            print(f"... {len(unknown) - 10} further distinct violation signatures (no replay file written):")
            for key2, vs2 in sorted(unknown.items(), key=lambda kv: kv[0])[10:60]:
                print(f"  more: signature={key2} cases={len(vs2)} detail={json.dumps(vs2[0]['detail'])[:300]}")
            break
        vs.sort(key=lambda v: len(json.dumps(v["case"])))  # smallest counterexample of this signature first
        path = emit_replay(prop, vs[0])
        print(f"VIOLATION property={prop} replay={path}")
        print(f"  signature={key} cases={len(vs)}")
        print(f"  detail={json.dumps(vs[0]['detail'])[:1200]}")
        rc = 1
    path = write_evidence(ctx, n_unknown, len(known))
    ex = "exhaustive over the stated space" if (ctx.exhaustive and not ctx.caps) else f"CAPPED: {ctx.caps}"
    if ctx.level == "model_checking":
        print(f"{prop} {ctx.tier}: states={ctx.states} transitions={ctx.transitions} traces={ctx.traces} "
              f"evaluations={ctx.evaluations} nontrivial={ctx.nontrivial} outcomes={len(ctx.outcomes)} [{ex}]")
    else:
        print(f"{prop} {ctx.tier}: evaluations={ctx.evaluations} nontrivial={ctx.nontrivial} "
              f"distinct_outcomes={len(ctx.outcomes)} [{ex}]")
    if ctx.counts:
        print("  counters:", json.dumps(ctx.counts))
    print(f"  violations={n_unknown} known_findings={len(known)} wall={time.time() - ctx.t0:.1f}s evidence={path}")
    if rc == 0 and ctx.nontrivial < 2:
        print("HARNESS-ERROR: vacuous run (fewer than 2 non-trivial cases)")
        return 2
    return rc


if __name__ == "__main__":
    sys.exit(main())
