"""Distribution-free finite-sample judgements, each at error probability <= DELTA per comparison."""

import numpy as np
import scipy.stats as sts

DELTA = 1e-12


def dkw_eps(n, delta=DELTA):
    """Dvoretzky-Kiefer-Wolfowitz: P(sup|F_n - F| > eps) <= 2 exp(-2 n eps^2)."""
    return float(np.sqrt(np.log(2.0 / delta) / (2.0 * n)))


def sup_distance(p_sorted_or_unsorted):
    """sup-distance between the empirical cdf of a sample and its exact cdf, given p_i = F(x_i)."""
    p = np.sort(np.asarray(p_sorted_or_unsorted, dtype=float))
    n = len(p)
    i = np.arange(1, n + 1)
    return float(max(np.max(i / n - p), np.max(p - (i - 1) / n)))


def binom_band(n, p, delta=DELTA):
    """[k_lo, k_hi]: P(X < k_lo) <= delta/2 and P(X > k_hi) <= delta/2 for X ~ Bin(n, p)."""
    lo = int(sts.binom.ppf(delta / 2, n, p))
    hi = int(sts.binom.isf(delta / 2, n, p))
    return max(lo - 1, 0), min(hi + 1, n)


def hoeffding_eps(n, n_comparisons, delta=DELTA):
    return float(np.sqrt(np.log(2.0 * n_comparisons / delta) / (2.0 * n)))


def independence_3x3(U, delta=DELTA):
    """U: (n, d) array of probability-integral-transformed components. For every pair of components the relative
    frequency of each of the 9 cells of the 3x3 threshold grid must be within the Hoeffding band around 1/9.
    Returns (worst deviation, eps)."""
    n, d = U.shape
    pairs = d * (d - 1) // 2
    if pairs == 0:
        return 0.0, 1.0
    eps = hoeffding_eps(n, 9 * pairs, delta)
    B = np.minimum((U * 3).astype(int), 2)
    worst = 0.0
    for a in range(d):
        for b in range(a + 1, d):
            H = np.zeros((3, 3))
            np.add.at(H, (B[:, a], B[:, b]), 1)
            worst = max(worst, float(np.max(np.abs(H / n - 1.0 / 9.0))))
    return worst, eps


def tail_coverage_quantile(n, delta=DELTA):
    """With n iid draws the maximum exceeds the (1 - c/n)-quantile with probability >= 1 - delta, c = ln(1/delta)."""
    c = np.log(1.0 / delta)
    return max(0.0, 1.0 - c / n)
