"""Core of the vmc ("virocon model checking") framework.

A check module (vmc/checks/cXX.py) exposes

    PROPERTY = "Cxx"; LEVEL = "exploration" | "fault_enumeration" | "model_checking"
    def main(ctx): ...           # explores, calls ctx.pmap / ctx.record
    def run_case(case): ...      # executes ONE case on the real code, returns a result dict
                                 # (used by the explorer in worker processes and by --replay)

run_case returns {"viol": [ {sig:{...}, detail:{...}, case:<replayable case>} ...],
                  "n": <executions in this case>, "nontrivial": <int>, "outcomes": [hashable...],
                  ...free form counters under "count": {name: int}}
"""

import hashlib
import json
import multiprocessing as mp
import os
import sys
import time
import traceback
import warnings

import numpy as np

HERE = os.path.dirname(os.path.dirname(os.path.abspath(__file__)))
REPO = os.environ.get("VIROCON_REPO", "/repo")
OUT = os.environ.get("VERIF_OUT", HERE)  # evidence/ and replays/ are written below this directory
NPROC = int(os.environ.get("VERIF_NPROC", "16"))


def jsonable(o):
    """Convert numpy / tuples / sets etc. to plain JSON data (exactly, floats as floats)."""
    if isinstance(o, dict):
        return {str(k): jsonable(v) for k, v in o.items()}
    if isinstance(o, (list, tuple)):
        return [jsonable(v) for v in o]
    if isinstance(o, (set, frozenset)):
        return sorted(jsonable(v) for v in o)
    if isinstance(o, np.ndarray):
        return jsonable(o.tolist())
    if isinstance(o, (np.floating,)):
        return jsonable(float(o))
    if isinstance(o, (np.integer,)):
        return int(o)
    if isinstance(o, (np.bool_,)):
        return bool(o)
    if isinstance(o, float):
        if o != o:
            return "nan"
        if o in (float("inf"), float("-inf")):
            return "inf" if o > 0 else "-inf"
        return o
    if isinstance(o, (int, str, bool)) or o is None:
        return o
    if callable(o):
        return getattr(o, "__name__", repr(o))
    return repr(o)


def stable_hash(o, n=12):
    return hashlib.sha256(json.dumps(jsonable(o), sort_keys=True).encode()).hexdigest()[:n]


def case_seed(case, base=0):
    """Deterministic 32-bit seed from a case and the run seed."""
    h = hashlib.sha256((json.dumps(jsonable(case), sort_keys=True) + f"|{base}").encode()).digest()
    return int.from_bytes(h[:4], "little")


def repo_revision():
    import subprocess

    try:
        rev = subprocess.run(["git", "-C", REPO, "rev-parse", "HEAD"], capture_output=True, text=True).stdout.strip()
        diff = subprocess.run(["git", "-C", REPO, "diff", "HEAD", "--", "virocon"], capture_output=True, text=True).stdout
        dirty = hashlib.sha256(diff.encode()).hexdigest()[:10] if diff else "clean"
        return rev, dirty
    except Exception:  # pragma: no cover
        return "unknown", "unknown"


def _worker(args):
    modname, case = args
    import importlib

    mod = importlib.import_module(modname)
    warnings.simplefilter("ignore")
    try:
        with np.errstate(all="ignore"):
            return mod.run_case(case)
    except Exception as e:
        # An exception that escaped a check. If virocon code was on the stack when it was raised, the library raised on an
        # input the check considers valid (every such call passes on the unchanged tree): that is a violation with its own
        # signature, not a harness failure. Anything else is a crash of the harness itself and must never look like a pass.
        tb = traceback.extract_tb(e.__traceback__)
        repo_frames = [f for f in tb if os.path.realpath(f.filename).startswith(os.path.realpath(REPO) + os.sep)]
        if repo_frames:
            f = repo_frames[-1]
            return {"viol": [{"sig": {"check": "uncaught_library_exception", "exc": type(e).__name__,
                                      "where": f"{os.path.basename(f.filename)}:{f.name}"},
                              "detail": {"msg": str(e)[:300], "trace_tail": traceback.format_exc()[-1200:]}, "case": jsonable(case)}],
                    "n": 1, "nontrivial": 1}
        return {"harness_error": f"{type(e).__name__}: {e}", "trace": traceback.format_exc(), "case": jsonable(case)}


class Ctx:
    def __init__(self, prop, level, tier, seed, modname):
        self.prop = prop
        self.level = level
        self.tier = tier
        self.seed = seed
        self.modname = modname
        self.t0 = time.time()
        self.evaluations = 0
        self.nontrivial = 0
        self.outcomes = set()
        self.counts = {}
        self.samples = []
        self.violations = []  # dicts with sig, detail, case
        self.harness_errors = []
        self.axes = {}
        self.caps = []
        self.exhaustive = True
        self.rule = ""
        self.assumptions = []
        self.extra = {}
        # model-checking counters
        self.states = 0
        self.transitions = 0
        self.traces = 0
        self._pool = None

    # ------------------------------------------------------------------ helpers
    @property
    def quick(self):
        return self.tier == "quick"

    def log(self, *a):
        print(f"[{self.prop} {time.time() - self.t0:6.1f}s]", *a, flush=True)

    def count(self, name, k=1):
        self.counts[name] = self.counts.get(name, 0) + k

    def axis(self, name, value):
        d = self.axes.setdefault(name, {})
        key = str(jsonable(value))
        d[key] = d.get(key, 0) + 1

    def sample(self, s, force=False):
        if force or len(self.samples) < 6:
            self.samples.append(jsonable(s))

    def cap(self, text):
        self.caps.append(text)
        self.exhaustive = False

    def violation(self, sig, detail, case):
        self.violations.append({"sig": jsonable(sig), "detail": jsonable(detail), "case": jsonable(case)})

    def absorb(self, res, case=None):
        """Book-keep one run_case result."""
        if res is None:
            return
        if "harness_error" in res:
            self.harness_errors.append(res)
            return
        self.evaluations += int(res.get("n", 1))
        self.nontrivial += int(res.get("nontrivial", 0))
        for o in res.get("outcomes", ()):
            if len(self.outcomes) < 200000:
                self.outcomes.add(o if isinstance(o, (str, int, float, tuple)) else json.dumps(jsonable(o), sort_keys=True))
        for k, v in res.get("count", {}).items():
            self.count(k, v)
        for k, v in res.get("axes", {}).items():
            for val, c in v.items():
                d = self.axes.setdefault(k, {})
                d[val] = d.get(val, 0) + c
        for v in res.get("viol", ()):
            self.violations.append({"sig": jsonable(v["sig"]), "detail": jsonable(v.get("detail", {})),
                                    "case": jsonable(v.get("case", case))})
        if "mc" in res:
            self.states += res["mc"].get("states", 0)
            self.transitions += res["mc"].get("transitions", 0)
            self.traces += res["mc"].get("traces", 0)

    def pmap(self, cases, nproc=None, chunksize=1, sample_every=None, label=""):
        """Run mod.run_case over all cases in a fork pool; results are absorbed in case order."""
        cases = list(cases)
        n = len(cases)
        if n == 0:
            return []
        nproc = min(nproc or NPROC, n)
        results = []
        t = time.time()
        if nproc <= 1:
            it = map(_worker, [(self.modname, c) for c in cases])
            for c, r in zip(cases, it):
                self.absorb(r, c)
                results.append(r)
        else:
            ctx = mp.get_context("fork")
            with ctx.Pool(nproc) as pool:
                for c, r in zip(cases, pool.imap(_worker, [(self.modname, c) for c in cases], chunksize)):
                    self.absorb(r, c)
                    results.append(r)
        # samples: first, last, middle
        for idx in sorted({0, n // 2, n - 1}):
            if len(self.samples) < 12:
                self.samples.append(jsonable(cases[idx]))
        self.log(f"{label or 'pmap'}: {n} cases in {time.time() - t:.1f}s, evaluations={self.evaluations}, "
                 f"violations={len(self.violations)}")
        return results


# ---------------------------------------------------------------------- known findings
def load_findings():
    path = os.path.join(HERE, "known_findings.json")
    if not os.path.exists(path):
        return []
    with open(path) as f:
        return json.load(f)["findings"]


def _match_value(pat, val):
    if isinstance(pat, dict) and "any_of" in pat:
        return any(_match_value(p, val) for p in pat["any_of"])
    if isinstance(pat, dict) and "lt" in pat:
        try:
            return float(val) < float(pat["lt"])
        except Exception:
            return False
    if isinstance(pat, dict) and "prefix" in pat:
        return isinstance(val, str) and val.startswith(pat["prefix"])
    return jsonable(pat) == val


def match_finding(prop, sig, findings):
    for f in findings:
        if f.get("status", "known") != "known" or f["property"] != prop:
            continue
        m = f["match"]
        if all(k in sig and _match_value(v, sig[k]) for k, v in m.items()):
            return f
    return None
