"""Shared alphabet: distribution families, parameter grids, dependence shapes, model builders."""

import itertools

import numpy as np

from virocon import (DependenceFunction, ExponentiatedWeibullDistribution, GeneralizedGammaDistribution,
                     GlobalHierarchicalModel, LogNormalDistribution, NormalDistribution, ScipyDistribution,
                     VonMisesDistribution, WeibullDistribution)
from virocon.distributions import LogNormalNormFitDistribution

from . import refdist


class GumbelR(ScipyDistribution):
    scipy_dist_name = "gumbel_r"


class GammaS(ScipyDistribution):
    scipy_dist_name = "gamma"


class WeibullMinS(ScipyDistribution):
    scipy_dist_name = "weibull_min"


GRID = {
    "scale": [0.05, 0.7, 3.0, 20.0],
    "shape": [0.5, 1.0, 1.7, 4.0],
    "loc": [0.0, 0.5, 2.0],
    "mu": [-1.0, 0.0, 2.0],
    "sigma": [0.1, 0.5, 1.5],
    "delta": [0.5, 1.0, 3.0, 8.0],
    "kappa": [0.2, 1.0, 5.0, 30.0],
    "lambda": [0.05, 0.5, 3.0],
    "mean": [0.3, 2.0, 9.0],
    "std": [0.1, 1.0, 4.0],
    "vmu": [-1.0, 0.0, 2.5],
}

# family name -> (class, ordered parameter names, role of each parameter)
FAMILIES = {
    "WeibullDistribution": (WeibullDistribution, ("alpha", "beta", "gamma"), ("scale", "shape", "loc")),
    "LogNormalDistribution": (LogNormalDistribution, ("mu", "sigma"), ("mu", "sigma")),
    "NormalDistribution": (NormalDistribution, ("mu", "sigma"), ("mu", "sigma")),
    "LogNormalNormFitDistribution": (LogNormalNormFitDistribution, ("mu_norm", "sigma_norm"), ("mean", "std")),
    "ExponentiatedWeibullDistribution": (ExponentiatedWeibullDistribution, ("alpha", "beta", "delta"),
                                         ("scale", "shape", "delta")),
    "GeneralizedGammaDistribution": (GeneralizedGammaDistribution, ("m", "c", "lambda_"), ("shape", "shape", "lambda")),
    "VonMisesDistribution": (VonMisesDistribution, ("kappa", "mu"), ("kappa", "vmu")),
    "GumbelR": (GumbelR, ("loc", "scale"), ("mu", "sigma")),
    "GammaS": (GammaS, ("a", "loc", "scale"), ("shape", "loc", "scale")),
    "WeibullMinS": (WeibullMinS, ("c", "loc", "scale"), ("shape", "loc", "scale")),
}
SHORT = {"WeibullDistribution": "W3", "LogNormalDistribution": "LN", "NormalDistribution": "N",
         "LogNormalNormFitDistribution": "LNNF", "ExponentiatedWeibullDistribution": "EW",
         "GeneralizedGammaDistribution": "GG", "VonMisesDistribution": "VM", "GumbelR": "GUM", "GammaS": "GAM",
         "WeibullMinS": "WMIN"}


def theta_grid(family, quick):
    cls, names, roles = FAMILIES[family]
    axes = []
    for r in roles:
        g = GRID[r]
        axes.append([g[0], g[-1]] if quick and len(g) > 2 else g)
        if quick and r in ("shape", "delta", "kappa"):
            axes[-1] = [g[0], g[2]]
    for vals in itertools.product(*axes):
        yield dict(zip(names, vals))


def make(family, theta=None, **fixed):
    cls = FAMILIES[family][0]
    kw = dict(theta or {})
    kw.update(fixed)
    return cls(**kw)


def ref(family, theta):
    return refdist.REF[family](**theta)


# ---------------------------------------------------------------- dependence shapes (even in g, bounded)
def dep_inc(x, a, b):
    return a + b * x * x / (1.0 + x * x)


def dep_dec(x, a, b):
    return a + b / (1.0 + x * x)


def dep_const(x, a):
    return a + 0.0 * x


def structures(n_dim):
    """All admissible conditional_on lists: conditional_on[0] is None, conditional_on[i] in {None, 0..i-1}."""
    opts = [[None]] + [[None] + list(range(i)) for i in range(1, n_dim)]
    return [list(s) for s in itertools.product(*opts)]
