"""Shared alphabet: distribution families, parameter grids, dependence shapes, model builders."""

import itertools

import numpy as np

from virocon import (DependenceFunction, ExponentiatedWeibullDistribution, GeneralizedGammaDistribution,
                     GlobalHierarchicalModel, LogNormalDistribution, NormalDistribution, ScipyDistribution,
                     VonMisesDistribution, WeibullDistribution)
from virocon.distributions import LogNormalNormFitDistribution

from . import refdist


class GumbelR(ScipyDistribution):
    scipy_dist_name = "gumbel_r"


class GammaS(ScipyDistribution):
    scipy_dist_name = "gamma"


class WeibullMinS(ScipyDistribution):
    scipy_dist_name = "weibull_min"


class ExponWeibS(ScipyDistribution):     # two shape parameters (a, c): their order matters everywhere
    scipy_dist_name = "exponweib"


GRID = {
    "scale": [0.05, 0.7, 3.0, 20.0],
    "shape": [0.5, 1.0, 1.7, 4.0],
    "loc": [0.0, 0.5, 2.0],
    "mu": [-1.0, 0.0, 2.0],
    "sigma": [0.1, 0.5, 1.5],
    "delta": [0.5, 1.0, 3.0, 8.0],
    "kappa": [0.2, 1.0, 5.0, 30.0],
    "lambda": [0.05, 0.5, 3.0],
    "mean": [0.3, 2.0, 9.0],
    "std": [0.1, 1.0, 4.0],
    "vmu": [-1.0, 0.0, 2.5],
}

# family name -> (class, ordered parameter names, role of each parameter)
FAMILIES = {
    "WeibullDistribution": (WeibullDistribution, ("alpha", "beta", "gamma"), ("scale", "shape", "loc")),
    "LogNormalDistribution": (LogNormalDistribution, ("mu", "sigma"), ("mu", "sigma")),
    "NormalDistribution": (NormalDistribution, ("mu", "sigma"), ("mu", "sigma")),
    "LogNormalNormFitDistribution": (LogNormalNormFitDistribution, ("mu_norm", "sigma_norm"), ("mean", "std")),
    "ExponentiatedWeibullDistribution": (ExponentiatedWeibullDistribution, ("alpha", "beta", "delta"),
                                         ("scale", "shape", "delta")),
    "GeneralizedGammaDistribution": (GeneralizedGammaDistribution, ("m", "c", "lambda_"), ("shape", "shape", "lambda")),
    "VonMisesDistribution": (VonMisesDistribution, ("kappa", "mu"), ("kappa", "vmu")),
    "GumbelR": (GumbelR, ("loc", "scale"), ("mu", "sigma")),
    "GammaS": (GammaS, ("a", "loc", "scale"), ("shape", "loc", "scale")),
    "WeibullMinS": (WeibullMinS, ("c", "loc", "scale"), ("shape", "loc", "scale")),
    "ExponWeibS": (ExponWeibS, ("a", "c", "loc", "scale"), ("delta", "shape", "loc", "scale")),
}
SHORT = {"WeibullDistribution": "W3", "LogNormalDistribution": "LN", "NormalDistribution": "N",
         "LogNormalNormFitDistribution": "LNNF", "ExponentiatedWeibullDistribution": "EW",
         "GeneralizedGammaDistribution": "GG", "VonMisesDistribution": "VM", "GumbelR": "GUM", "GammaS": "GAM",
         "WeibullMinS": "WMIN", "ExponWeibS": "EWS"}


def theta_grid(family, quick):
    cls, names, roles = FAMILIES[family]
    axes = []
    for r in roles:
        g = GRID[r]
        axes.append([g[0], g[-1]] if quick and len(g) > 2 else g)
        if quick and r in ("shape", "delta", "kappa"):
            axes[-1] = [g[0], g[2]]
        if quick and 0.0 in g and 0.0 not in axes[-1]:
            axes[-1] = sorted(axes[-1] + [0.0])  # exactly 0 is falsy in python: always part of the grid
    for vals in itertools.product(*axes):
        yield dict(zip(names, vals))


def make(family, theta=None, **fixed):
    cls = FAMILIES[family][0]
    kw = dict(theta or {})
    kw.update(fixed)
    return cls(**kw)


def ref(family, theta):
    return refdist.REF[family](**theta)


# ---------------------------------------------------------------- dependence shapes (even in g, bounded)
def dep_inc(x, a, b):
    return a + b * x * x / (1.0 + x * x)


def dep_dec(x, a, b):
    return a + b / (1.0 + x * x)


def dep_const(x, a):
    return a + 0.0 * x


def structures(n_dim):
    """All admissible conditional_on lists: conditional_on[0] is None, conditional_on[i] in {None, 0..i-1}."""
    opts = [[None]] + [[None] + list(range(i)) for i in range(1, n_dim)]
    return [list(s) for s in itertools.product(*opts)]


# ---------------------------------------------------------------- joint models
COEF = {"scale": (1.5, 1.0), "shape": (1.2, 0.8), "loc": (0.3, 0.4), "mu": (0.4, 0.5), "sigma": (0.3, 0.4),
        "delta": (1.5, 1.5), "kappa": (1.0, 3.0), "lambda": (0.4, 0.5), "mean": (2.0, 1.5), "std": (0.8, 0.6),
        "vmu": (0.2, 1.0)}
MID = {"WeibullDistribution": dict(alpha=1.5, beta=1.6, gamma=0.5),
       "LogNormalDistribution": dict(mu=0.5, sigma=0.4),
       "NormalDistribution": dict(mu=0.5, sigma=0.6),
       "LogNormalNormFitDistribution": dict(mu_norm=2.0, sigma_norm=0.8),
       "ExponentiatedWeibullDistribution": dict(alpha=1.4, beta=1.5, delta=2.0),
       "GeneralizedGammaDistribution": dict(m=1.5, c=1.4, lambda_=0.7),
       "VonMisesDistribution": dict(kappa=2.0, mu=0.3),
       "GumbelR": dict(loc=0.5, scale=0.6),
       "GammaS": dict(a=2.0, loc=0.5, scale=0.6),
       "WeibullMinS": dict(c=1.6, loc=0.5, scale=1.5),
       "ExponWeibS": dict(a=2.5, c=1.3, loc=0.5, scale=1.2)}
# which parameters are dependent when the family is used as a conditional dimension (the rest is fixed)
DEPENDENT = {"WeibullDistribution": ("alpha", "beta"), "LogNormalDistribution": ("mu", "sigma"),
             "NormalDistribution": ("mu", "sigma"), "LogNormalNormFitDistribution": ("mu_norm", "sigma_norm"),
             "ExponentiatedWeibullDistribution": ("alpha", "beta"), "GeneralizedGammaDistribution": ("c", "lambda_"),
             "VonMisesDistribution": ("kappa", "mu"), "GumbelR": ("loc", "scale"), "GammaS": ("a", "scale"),
             "WeibullMinS": ("c", "scale"), "ExponWeibS": ("a", "scale")}
ASSIGN = {"A": ("inc", "dec"), "B": ("dec", "const"), "C": ("const", "inc")}


def shape_func(shape, a, b):
    if shape == "inc":
        def f(x, a=a, b=b):
            return a + b * x * x / (1.0 + x * x)
    elif shape == "dec":
        def f(x, a=a, b=b):
            return a + b / (1.0 + x * x)
    else:
        def f(x, a=a):
            return a + 0.0 * x
    return f


def raw_shape(shape, g, a, b):
    g = np.asarray(g, dtype=float)
    if shape == "inc":
        return a + b * g * g / (1.0 + g * g)
    if shape == "dec":
        return a + b / (1.0 + g * g)
    return a + 0.0 * g


def cond_dim(family, assign="A"):
    """(template instance, parameters dict of DependenceFunctions, theta(g) reference function)."""
    cls, names, roles = FAMILIES[family]
    role = dict(zip(names, roles))
    deps = DEPENDENT[family]
    fixed = {"f_" + n: MID[family][n] for n in names if n not in deps}
    params, tf = {}, {}
    for n, shape in zip(deps, ASSIGN[assign]):
        a, b = COEF[role[n]]
        params[n] = DependenceFunction(shape_func(shape, a, b))
        tf[n] = (shape, a, b)

    def theta(g):
        th = {n: MID[family][n] for n in names if n not in deps}
        for n, (shape, a, b) in tf.items():
            th[n] = float(raw_shape(shape, g, a, b))
        return th

    return cls(**fixed), params, theta


def build_model(fams, cond_on, assign="A"):
    """fams: family names per dimension, cond_on: list of None/int. Returns (model, thetas) where thetas[i] is None
    for an unconditional dimension or the reference theta(g) function."""
    descs, thetas = [], []
    for f, c in zip(fams, cond_on):
        if c is None:
            descs.append({"distribution": make(f, MID[f])})
            thetas.append(None)
        else:
            tmpl, params, theta = cond_dim(f, assign)
            descs.append({"distribution": tmpl, "conditional_on": c, "parameters": params})
            thetas.append(theta)
    return GlobalHierarchicalModel(descs), thetas


def rosenblatt_u(model, X):
    """u = Phi^-1(F_i(x_i | x_cond(i))) row by row with scalar given, using the model's own cdfs."""
    import scipy.special as sp
    X = np.asarray(X, dtype=float)
    P = np.empty_like(X)
    for i, d in enumerate(model.distributions):
        c = model.conditional_on[i]
        for r in range(len(X)):
            P[r, i] = float(d.cdf(float(X[r, i]))) if c is None else float(d.cdf(float(X[r, i]), given=float(X[r, c])))
    return sp.ndtri(P), P
