"""C10 - interval slicing partitions the data (bounded-exhaustive lattice exploration).

Alphabet: widths w in {1, .5, .1, .3, .7}; value lattice {k*w/2, k=0..8} in both float spellings
(k*w/2 and the rounded decimal literal); ALL data vectors of length 1..L over that lattice (every
order is enumerated by the product); every option combination of the three slicers.
Oracle ("refslice"): statements on counts, order and the *reported* boundaries only -- see check_*.
"""

import itertools

import numpy as np

from virocon import NumberOfIntervalsSlicer, PointsPerIntervalSlicer, WidthOfIntervalSlicer

PROPERTY = "C10"
LEVEL = "exploration"

WIDTHS = [1.0, 0.5, 0.1, 0.3, 0.7]
REFS = {"center": "center", "left": "left", "right": "right", "median": np.median}
PREFS = {"median": np.median, "mean": np.mean}


def lattice(w):
    vals = set()
    for k in range(9):
        vals.add(k * w / 2)
        vals.add(round(k * w / 2, 10))
    return sorted(vals)


def _vr(kind, w):
    return {"none": None, "lo": (w, None), "hi": (None, 3 * w), "lohi": (w, 3 * w), "wide": (0.0, 4 * w)}[kind]


# --------------------------------------------------------------------------- oracles
def _ref_ok(refname, ref, lo, hi, members, tol):
    if refname == "center":
        return abs(ref - (lo + hi) / 2) <= tol
    if refname == "left":
        return ref == lo
    if refname == "right":
        return ref == hi
    if len(members) == 0:
        return True  # callable on an empty interval is undefined
    f = REFS.get(refname) or PREFS[refname]
    return ref == f(members) or abs(ref - f(members)) <= 1e-12 * max(1.0, abs(ref))


def check_width(p, data):
    """p: w, right_open, vr, ref. Returns list of (clause, detail)."""
    out = []
    w, ro, refname = p["w"], p["right_open"], p["ref"]
    if p.get("int_mode"):
        w = int(w)      # python int width, integer-typed data (and integer value_range)
    vr = _vr(p["vr"], w)
    data = np.array(data, dtype=(int if p.get("int_mode") else float))
    orig = data.copy()
    s = WidthOfIntervalSlicer(w, reference=REFS[refname], right_open=ro, value_range=vr, min_n_points=0,
                              min_n_intervals=0)
    masks, refs, bnds = s.slice_(data)
    if not np.array_equal(orig, data):
        out.append(("input_mutated", {}))
    dmin = 0.0 if (vr is None or vr[0] is None) else vr[0]
    dmax = float(np.max(data)) if (vr is None or vr[1] is None) else vr[1]
    tol = 1e-9 * w
    K = len(masks)
    if not (len(refs) == K == len(bnds)):
        return out + [("lengths", {"K": K, "refs": len(refs), "bnds": len(bnds)})]
    if K == 0:
        # no interval at all is legitimate only if the configured range is empty (upper limit below lower limit)
        inside = [(dmin <= x <= dmax) if ro else (dmin < x <= dmax) for x in data]
        if any(inside):
            out.append(("count_inside", {"K": 0, "configured": [dmin, dmax]}))
        return out
    for k, m in enumerate(masks):
        m = np.asarray(m)
        if m.shape != data.shape or m.dtype != bool:
            return out + [("mask_shape", {"k": k, "shape": list(m.shape), "dtype": str(m.dtype)})]
    M = np.array(masks)
    cnt = M.sum(axis=0)
    # the documented grid: intervals of equal width w starting at the lower limit, covering the range
    for k, (lo, hi) in enumerate(bnds):
        if abs(lo - (dmin + k * w)) > tol * max(1, k) or abs(hi - (dmin + (k + 1) * w)) > tol * max(1, k + 1):
            out.append(("boundary_grid", {"k": k, "lo": lo, "hi": hi, "expected_lo": dmin + k * w}))
            break
        if k + 1 < K and hi > bnds[k + 1][0] + tol:
            out.append(("boundaries_overlap", {"k": k, "hi": hi, "next_lo": bnds[k + 1][0]}))
            break
    span_lo, span_hi = bnds[0][0], bnds[-1][1]
    if span_lo > dmin + tol or span_hi < dmax - tol:
        out.append(("range_not_covered", {"span": [span_lo, span_hi], "configured": [dmin, dmax]}))
    for j, x in enumerate(data):
        inside_cfg = (dmin <= x <= dmax) if ro else (dmin < x <= dmax)
        inside_span = (span_lo <= x < span_hi) if ro else (span_lo < x <= span_hi)
        if inside_cfg and cnt[j] != 1:
            out.append(("count_inside", {"j": j, "x": x, "count": int(cnt[j])}))
            break
        if not inside_cfg and cnt[j] != (1 if inside_span else 0):
            out.append(("count_outside", {"j": j, "x": x, "count": int(cnt[j]), "inside_span": bool(inside_span)}))
            break
    # masks are aligned with input positions: member <=> value lies in the reported boundary
    for k in range(K):
        lo, hi = bnds[k]
        for j, x in enumerate(data):
            member = (lo <= x < hi) if ro else (lo < x <= hi)
            if bool(M[k, j]) != member:
                out.append(("mask_vs_boundary", {"k": k, "j": j, "x": x, "lo": lo, "hi": hi, "mask": bool(M[k, j])}))
                break
        else:
            continue
        break
    for k in range(K):
        if not _ref_ok(refname, refs[k], bnds[k][0], bnds[k][1], data[M[k]], tol):
            out.append(("reference", {"k": k, "ref": refs[k], "bnd": bnds[k], "refname": refname}))
            break
    out += _check_drop(lambda mp, mi: WidthOfIntervalSlicer(w, reference=REFS[refname], right_open=ro, value_range=vr,
                                                            min_n_points=mp, min_n_intervals=mi),
                       data, M, refs, bnds, lambda mi: mi)
    return out


def _points_bounds(data, masks):
    """Documented boundaries of the points slicer for the returned (kept) intervals."""
    b = []
    K = len(masks)
    for k in range(K):
        mem = data[masks[k]]
        lo = mem.min() if k == 0 else (data[masks[k - 1]].max() + mem.min()) / 2
        hi = mem.max() if k == K - 1 else (mem.max() + data[masks[k + 1]].min()) / 2
        b.append((lo, hi))
    return b


def _check_drop(make, data, M, refs, bnds, eff_min_int, eff_min_pts=lambda mp: mp, points=False):
    """Differential: with min_n_points=mp exactly the pre-drop intervals with >= mp members remain,
    RuntimeError iff fewer than min_n_intervals remain."""
    out = []
    sizes = M.sum(axis=1)
    for mp in (1, 2):
        keep = [k for k in range(len(M)) if sizes[k] >= eff_min_pts(mp)]
        for mi in (1, 3):
            try:
                m2, r2, b2 = make(mp, mi).slice_(data)
                raised = False
            except RuntimeError:
                raised = True
            should_raise = len(keep) < eff_min_int(mi)
            if raised != should_raise:
                out.append(("min_n_intervals", {"min_n_points": mp, "min_n_intervals": mi, "remaining": len(keep),
                                                "raised": raised}))
                return out
            if raised:
                continue
            ok = len(m2) == len(keep) == len(r2) == len(b2)
            if ok:
                # the points slicer documents its boundaries relative to the returned neighbours
                expb = _points_bounds(data, [M[k] for k in keep]) if points else [bnds[k] for k in keep]
                for a, k in enumerate(keep):
                    if not np.array_equal(m2[a], M[k]) or tuple(b2[a]) != tuple(expb[a]):
                        ok = False
                        break
                    ra, rk = r2[a], refs[k]
                    if not (ra == rk or (ra != ra and rk != rk)):
                        ok = False
                        break
            if not ok:
                out.append(("drop_rule", {"min_n_points": mp, "min_n_intervals": mi, "expected_kept": keep,
                                          "sizes": sizes.tolist(), "got": len(m2)}))
                return out
    return out


def check_number(p, data):
    out = []
    w, nint, im, refname = p["w"], p["n_intervals"], p["include_max"], p["ref"]
    if p.get("int_mode"):
        w = int(w)
    vr = _vr(p["vr"], w)
    data = np.array(data, dtype=(int if p.get("int_mode") else float))
    orig = data.copy()
    s = NumberOfIntervalsSlicer(nint, reference=REFS[refname], include_max=im, value_range=vr, min_n_points=0,
                                min_n_intervals=0)
    masks, refs, bnds = s.slice_(data)
    if not np.array_equal(orig, data):
        out.append(("input_mutated", {}))
    lo0, hi0 = (float(np.min(data)), float(np.max(data))) if vr is None else vr
    K = len(masks)
    if not (K == nint == len(refs) == len(bnds)):
        return out + [("lengths", {"K": K, "n_intervals": nint})]
    for k, m in enumerate(masks):
        m = np.asarray(m)
        if m.shape != data.shape or m.dtype != bool:
            return out + [("mask_shape", {"k": k})]
    M = np.array(masks)
    cnt = M.sum(axis=0)
    width = (hi0 - lo0) / nint
    tol = 1e-9 * max(width, abs(lo0), abs(hi0), 1e-300)
    for k, (lo, hi) in enumerate(bnds):
        if abs(lo - (lo0 + k * width)) > tol or abs(hi - (lo0 + (k + 1) * width)) > tol:
            out.append(("boundary_grid", {"k": k, "lo": lo, "hi": hi, "expected": [lo0 + k * width, lo0 + (k + 1) * width]}))
            break
        if k + 1 < K and hi > bnds[k + 1][0] + tol:
            out.append(("boundaries_overlap", {"k": k}))
            break
    if bnds[0][0] > lo0 or bnds[-1][1] < hi0:
        out.append(("range_not_covered", {"span": [bnds[0][0], bnds[-1][1]], "configured": [lo0, hi0]}))
    for j, x in enumerate(data):
        inside = (lo0 <= x < hi0) or (im and x == hi0)
        if inside and cnt[j] != 1:
            out.append(("count_inside", {"j": j, "x": x, "count": int(cnt[j]), "include_max": im}))
            break
        if (x < lo0 or x > hi0 or (x == hi0 and not im)) and cnt[j] != 0:
            out.append(("count_outside", {"j": j, "x": x, "count": int(cnt[j]), "include_max": im}))
            break
    for k in range(K):
        lo, hi = bnds[k]
        bad = False
        for j, x in enumerate(data):
            last = k == K - 1
            member = (lo <= x < hi) or (last and im and x == hi)
            if bool(M[k, j]) != member:
                out.append(("mask_vs_boundary", {"k": k, "j": j, "x": x, "lo": lo, "hi": hi, "mask": bool(M[k, j])}))
                bad = True
                break
        if bad:
            break
    for k in range(K):
        if not _ref_ok(refname, refs[k], bnds[k][0], bnds[k][1], data[M[k]], tol):
            out.append(("reference", {"k": k, "ref": refs[k], "bnd": bnds[k], "refname": refname}))
            break
    out += _check_drop(lambda mp, mi: NumberOfIntervalsSlicer(nint, reference=REFS[refname], include_max=im,
                                                              value_range=vr, min_n_points=mp, min_n_intervals=mi),
                       data, M, refs, bnds, lambda mi: min(mi, nint))
    return out


def check_points(p, data):
    out = []
    npts, lf, refname = p["n_points"], p["last_full"], p["ref"]
    data = np.array(data, dtype=(int if p.get("int_mode") else float))
    orig = data.copy()
    n = len(data)
    if n < npts:
        # fewer observations than one chunk: any exception is a refusal, a returned result is judged below
        try:
            PointsPerIntervalSlicer(npts, reference=PREFS[refname], last_full=lf, min_n_points=0,
                                    min_n_intervals=0).slice_(data)
        except Exception:
            return [("__refused__", {})]
    s = PointsPerIntervalSlicer(npts, reference=PREFS[refname], last_full=lf, min_n_points=0, min_n_intervals=0)
    masks, refs, bnds = s.slice_(data)
    if not np.array_equal(orig, data):
        out.append(("input_mutated", {}))
    K = len(masks)
    full, rem = divmod(n, npts)
    exp_sizes = [npts] * full
    if rem:
        exp_sizes = ([rem] + exp_sizes) if lf else (exp_sizes + [rem])
    if not (K == len(exp_sizes) == len(refs) == len(bnds)):
        return out + [("lengths", {"K": K, "expected": len(exp_sizes)})]
    for k, m in enumerate(masks):
        m = np.asarray(m)
        if m.shape != data.shape or m.dtype != bool:
            return out + [("mask_shape", {"k": k})]
    M = np.array(masks)
    cnt = M.sum(axis=0)
    if (cnt != 1).any():
        out.append(("count_inside", {"counts": cnt.tolist()}))
    if M.sum(axis=1).tolist() != exp_sizes:
        out.append(("chunk_sizes", {"sizes": M.sum(axis=1).tolist(), "expected": exp_sizes}))
    # chunks are consecutive runs of the sorted data, masks refer to input positions
    srt = np.sort(data)
    pos = 0
    for k in range(K):
        mem = np.sort(data[M[k]])
        if not np.array_equal(mem, srt[pos:pos + exp_sizes[k]]):
            out.append(("mask_alignment", {"k": k, "members": mem.tolist(), "expected": srt[pos:pos + exp_sizes[k]].tolist()}))
            break
        pos += exp_sizes[k]
    else:
        # boundaries as documented
        for k in range(K):
            mem = data[M[k]]
            lo, hi = bnds[k]
            exp_lo = mem.min() if k == 0 else (data[M[k - 1]].max() + mem.min()) / 2
            exp_hi = mem.max() if k == K - 1 else (mem.max() + data[M[k + 1]].min()) / 2
            if lo != exp_lo or hi != exp_hi:
                out.append(("boundary_grid", {"k": k, "bnd": [lo, hi], "expected": [exp_lo, exp_hi]}))
                break
            if (mem < lo).any() or (mem > hi).any():
                out.append(("mask_vs_boundary", {"k": k}))
                break
            if k + 1 < K and hi > bnds[k + 1][0]:
                out.append(("boundaries_overlap", {"k": k}))
                break
            f = PREFS[refname]
            if not (refs[k] == f(mem)):
                out.append(("reference", {"k": k, "ref": refs[k], "expected": f(mem)}))
                break
    if n >= npts and not out:
        out += _check_drop(lambda mp, mi: PointsPerIntervalSlicer(npts, reference=PREFS[refname], last_full=lf,
                                                                  min_n_points=mp, min_n_intervals=mi),
                           data, M, refs, bnds, lambda mi: mi, lambda mp: min(mp, npts), points=True)
    return out


CHECKS = {"width": check_width, "number": check_number, "points": check_points}


# --------------------------------------------------------------------------- cases
def configs(kind, tier):
    if kind == "width":
        for w in WIDTHS:
            for ro in (True, False):
                for vr in ("none", "lo", "hi", "lohi"):
                    for ref in REFS:
                        yield {"w": w, "right_open": ro, "vr": vr, "ref": ref}
    elif kind == "number":
        for w in WIDTHS:
            for nint in (1, 2, 3, 5, 10):
                for im in (True, False):
                    for vr in ("none", "lohi", "wide"):
                        for ref in REFS:
                            yield {"w": w, "n_intervals": nint, "include_max": im, "vr": vr, "ref": ref}
    else:
        for w in WIDTHS:
            for npts in (1, 2, 3):
                for lf in (True, False):
                    for ref in PREFS:
                        yield {"w": w, "n_points": npts, "last_full": lf, "ref": ref}


def long_vectors(w, which):
    """Fixed family of long vectors (n=1000) with ties and rounded values in fixed orders."""
    rng = np.random.RandomState(12345)
    base = np.round(rng.weibull(1.5, 1000) * 3 * w, 1 if w >= 0.5 else 2)
    base[:5] = [0.0, w, 2 * w, 3 * w, round(3 * w, 10)]
    if which == "sorted":
        return np.sort(base)
    if which == "reversed":
        return np.sort(base)[::-1].copy()
    if which == "asdrawn":
        return base
    if which == "interleave":
        s = np.sort(base)
        return np.concatenate([s[::2], s[1::2]])
    if which == "rot":
        return np.roll(np.sort(base), 333)
    if which == "shuffle":
        return base[np.random.RandomState(7).permutation(1000)]
    raise ValueError(which)


LONG_ORDERS = ["sorted", "reversed", "asdrawn", "interleave", "rot", "shuffle"]


def int_lattice():
    return [0, 1, 2, 3, 4]


def run_case(case):
    kind, p = case["kind"], case["p"]
    chk = CHECKS[kind]
    viol, n, nontriv = [], 0, 0
    outcomes = set()
    count = {}

    def one(data, single_case):
        nonlocal n, nontriv
        n += 1
        try:
            res = chk(p, data)
        except RuntimeError as e:
            res = [("unexpected_runtime_error", {"msg": str(e)})]
        except Exception as e:
            res = [("exception", {"type": type(e).__name__, "msg": str(e)[:200]})]
        if res and res[0][0] == "__refused__":
            count["refused"] = count.get("refused", 0) + 1
            return
        # non-trivial: at least one value exactly on a lattice edge (multiple of w) and >= 2 distinct values or len 1 edge
        w = p["w"]
        dd = np.asarray(data, dtype=float)
        on_edge = bool(np.any(np.abs(dd / w - np.round(dd / w)) < 1e-9))
        if on_edge:
            nontriv += 1
        outcomes.add(len(res))
        for clause, detail in res[:1]:
            if len(viol) < 3:
                viol.append({"sig": {"check": "slicer", "kind": kind, "clause": clause}, "detail": detail,
                             "case": single_case})
            count["viol_" + clause] = count.get("viol_" + clause, 0) + 1

    if "data" in case:
        one(case["data"], case)
    elif "long" in case:
        d = long_vectors(p["w"], case["long"])
        one(d, case)
    else:
        lat = lattice(p["w"]) if not p.get("int_mode") else int_lattice()
        L = case["len"]
        for vec in itertools.product(lat, repeat=L):
            one(vec, {"kind": kind, "p": p, "data": list(vec)})
    return {"viol": viol, "n": n, "nontrivial": nontriv, "outcomes": [f"{kind}:{o}" for o in outcomes], "count": count}


def main(ctx):
    ctx.rule = ("complete product: slicer kind x every option combination (min_n_points in {0,1,2} and "
                "min_n_intervals in {1,3} handled differentially inside each case) x width in {1,.5,.1,.3,.7} x ALL "
                "data vectors of length 1..L over the lattice {k*w/2,k=0..8} in both float spellings; plus 6 fixed "
                "orders of an n=1000 rounded vector. Non-trivial = the vector contains a value exactly on an interval "
                "edge (a multiple of the width).")
    ctx.assumptions = ["PointsPerIntervalSlicer with fewer observations than n_points: an exception counts as refusal",
                       "values are exact lattice points; continuous data between lattice points are not explored"]
    Lfull = 3 if ctx.quick else 4
    cases = []
    for kind in ("width", "number", "points"):
        for p in configs(kind, ctx.tier):
            for L in range(1, Lfull + 1):
                cases.append({"kind": kind, "p": p, "len": L})
            # the longest vectors only with the default reference (reference does not influence masks)
            default_ref = "center" if kind != "points" else "median"
            top = p["ref"] == default_ref and not (kind == "number" and p["vr"] == "wide")
            if ctx.quick:  # quick: the longest vectors for the decimal widths and the two main range settings only
                top = top and p["w"] in (0.1, 0.3) and p.get("vr", "none") in ("none", "lohi")
            if top:
                cases.append({"kind": kind, "p": p, "len": Lfull + 1})
            for o in LONG_ORDERS:
                cases.append({"kind": kind, "p": p, "long": o})
    # integer-typed data with integer width / range (w = 1): all vectors of length 1..3 (thorough: 4) over {0..4}
    for kind in ("width", "number", "points"):
        for p in configs(kind, ctx.tier):
            if p["w"] != 1.0:
                continue
            for L in range(1, 4 if ctx.quick else 5):
                cases.append({"kind": kind, "p": dict(p, int_mode=True), "len": L})
    ctx.extra["max_vector_length_all_options"] = Lfull
    ctx.extra["max_vector_length_default_reference"] = Lfull + 1
    ctx.extra["lattice_sizes"] = {str(w): len(lattice(w)) for w in WIDTHS}
    # longest first for load balance
    cases.sort(key=lambda c: -(c.get("len", 0)))
    ctx.pmap(cases, chunksize=1, label="slicers")
