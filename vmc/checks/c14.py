"""C14 - dependence functions are fitted within bounds, optimally, in dependency order.

Part A1 (lattice): single fits over shapes x support sizes x bounds x weights x constraints x start values.
Part A2 (explicit-state model checking on the real objects): all orders of fit calls incl. re-fits over four
dependency graphs, until the set of canonical states closes; and the same through ConditionalDistribution.fit with every
permutation of the parameters dict.
"""

import itertools

import numpy as np

from virocon import DependenceFunction, WeibullDistribution
from virocon.distributions import ConditionalDistribution

from .. import history

PROPERTY = "C14"
LEVEL = "model_checking"


# ------------------------------------------------------------------------------------------- shapes
def _linear(x, a, b):
    return a + b * x


def _quadratic(x, a, b, c):
    return a + b * x + c * x * x


def _power3(x, a, b, c):
    return a + b * x ** c


def _exp3(x, a, b, c):
    return a + b * np.exp(c * x)


def _logistics4(x, a=1, b=1, c=-1, d=1):
    return a + b / (1 + np.exp(c * (x - d)))


def _asymdecrease3(x, a, b, c):
    return a + b / (1 + c * x)


def _lnsquare2(x, a, b, c):
    return np.log(a + b * np.sqrt(np.divide(x, 9.81)))


def _limited_growth2(x, a=0.08, b=1):
    return a * (1 - np.exp(-b * x))


SHAPES = {
    "linear": (_linear, (1.0, 0.5), True),
    "linear_neg": (_linear, (-0.6, 0.5), True),
    "quadratic": (_quadratic, (1.0, 0.5, 0.1), True),
    "power3": (_power3, (0.5, 1.2, 0.8), False),
    "exp3": (_exp3, (0.3, 1.5, 0.2), False),
    "logistics4": (_logistics4, (0.8, 1.5, -1.2, 3.0), False),
    "asymdecrease3": (_asymdecrease3, (0.1, 0.6, 0.4), False),
    "lnsquare2": (_lnsquare2, (1.5, 2.0, 0.0), False),
    "limited_growth2": (_limited_growth2, (0.09, 0.7), False),
}
WEIGHTS = {"none": None, "y": (lambda x, y: y), "invx": (lambda x, y: 1.0 / x),
           # weights that are exactly 0 for some support points (those points are to be ignored)
           "ramp0": (lambda x, y: x - np.min(x)), "window01": (lambda x, y: (np.arange(len(x)) % 3 != 1).astype(float))}


def support(n):
    return np.linspace(0.5, 10.0, n)


def target(shape, x):
    f, th, _ = SHAPES[shape]
    return f(x, *th) * (1 + 0.02 * np.sin(7 * x))


def make_bounds(kind, shape):
    f, th, _ = SHAPES[shape]
    k = len(th)
    if kind == "none":
        return None
    if kind == "allnone":
        return [(None, None)] * k
    if kind == "inactive":
        return [(t - 50 - abs(t) * 5, t + 50 + abs(t) * 5) for t in th]
    if kind == "lower_active":   # first parameter forced above its unconstrained optimum
        return [(th[0] + 0.3 * max(abs(th[0]), 0.1), None)] + [(None, None)] * (k - 1)
    if kind == "upper_active":
        return [(None, th[0] - 0.3 * max(abs(th[0]), 0.1))] + [(None, None)] * (k - 1)
    if kind == "zero_lower":     # a bound of exactly 0 (falsy in python), active when the unconstrained optimum is negative
        return [(0, None)] + [(None, None)] * (k - 1)
    if kind == "zero_upper":     # active when the unconstrained optimum is positive
        return [(None, 0)] + [(None, None)] * (k - 1)
    if kind == "zero_both_inactive":
        return [(None, None)] * (k - 1) + [((0, None) if th[-1] > 0 else (None, 0))]
    if kind == "mixed":
        b = [(None, None)] * k
        b[0] = (th[0] - 50, None)
        b[-1] = (None, th[-1] - 0.2 * max(abs(th[-1]), 0.1))
        return b
    raise ValueError(kind)


def make_constraints(kind, shape):
    f, th, _ = SHAPES[shape]
    if kind == "none":
        return None
    if kind == "dict_inactive":
        return {"type": "ineq", "fun": lambda p, t0=th[0]: p[0] - (t0 - 100.0)}
    if kind == "dict_active":     # p[0] >= t0 + margin
        return {"type": "ineq", "fun": lambda p, t0=th[0]: p[0] - (t0 + 0.3 * max(abs(t0), 0.1))}
    if kind == "list_two":
        return [{"type": "ineq", "fun": lambda p, t0=th[0]: p[0] - (t0 + 0.3 * max(abs(t0), 0.1))},
                {"type": "ineq", "fun": lambda p, t1=th[1]: (t1 + 100.0) - p[1]}]
    raise ValueError(kind)


def residual(f, p, x, y, w):
    with np.errstate(all="ignore"):
        r = f(x, *p) - y
        return float(np.sum((1.0 if w is None else w) * r * r))


def feasible(p, bounds, cons):
    if bounds is not None:
        for v, (lo, hi) in zip(p, bounds):
            if lo is not None and v < lo - 1e-12 * max(1, abs(lo)):
                return False
            if hi is not None and v > hi + 1e-12 * max(1, abs(hi)):
                return False
    for c in cons:
        if c["fun"](np.asarray(p)) < -1e-8:
            return False
    return True


def run_single(case):
    shape, n, bk, wk, ck, start = case["shape"], case["n"], case["bounds"], case["weights"], case["constraints"], case["start"]
    f, th, linear = SHAPES[shape]
    x = support(n)
    y = target(shape, x)
    bounds = make_bounds(bk, shape)
    cons = make_constraints(ck, shape)
    cons_list = [] if cons is None else ([cons] if isinstance(cons, dict) else list(cons))
    wfun = WEIGHTS[wk]
    viol = []
    if wfun is not None:
        w_ = np.asarray(wfun(x, y), dtype=float)
        if (np.any(w_ <= 0) if wk in ("y", "invx") else np.count_nonzero(w_ > 0) < len(th) + 1):
            return {"viol": [], "n": 0, "nontrivial": 0, "count": {"skipped_non_positive_weights": 1}}

    def bad(clause, detail):
        sig = {"check": "depfit", "clause": clause, "weighted": wk != "none", "constrained": ck != "none"}
        viol.append({"sig": sig, "detail": detail, "case": case})

    dep = DependenceFunction(f, bounds=bounds, constraints=cons, weights=wfun)
    names = list(dep.parameters)
    if start in ("near", "near_reversed_keys"):
        p0 = {nme: t * 1.15 + 0.05 for nme, t in zip(names, th)}
        # start must be feasible for the bounds
        if bounds is not None:
            for nme, (lo, hi) in zip(names, bounds):
                if lo is not None and p0[nme] < lo:
                    p0[nme] = lo + 0.05
                if hi is not None and p0[nme] > hi:
                    p0[nme] = hi - 0.05
        # the start values as a dict keyed by name; "reversed": the same dict with its keys in the opposite order
        dep.parameters = dict(p0) if start == "near" else dict(reversed(list(p0.items())))
    p_start = np.array([dep.parameters[nme] for nme in names], dtype=float)
    try:
        dep.fit(x, y)
    except NotImplementedError:   # weighted AND constrained fitting is documented as not implemented
        return {"viol": [], "n": 1, "nontrivial": 0, "count": {"refused_weighted_constrained_not_implemented": 1}}
    except RuntimeError as e:
        return {"viol": [], "n": 1, "nontrivial": 0, "count": {"refused_runtime_error_failed_to_fit": 1}}
    except ValueError as e:
        if "infeasible" in str(e):  # the start values violate the declared bounds: a refusal, not a result
            return {"viol": [], "n": 1, "nontrivial": 0, "count": {"refused_start_outside_bounds": 1}}
        bad("exception", {"type": type(e).__name__, "msg": str(e)[:200]})
        return {"viol": viol, "n": 1, "nontrivial": 1}
    except Exception as e:
        bad("exception", {"type": type(e).__name__, "msg": str(e)[:200]})
        return {"viol": viol, "n": 1, "nontrivial": 1}
    p = np.array([dep.parameters[nme] for nme in names], dtype=float)
    w = None if wfun is None else np.asarray(wfun(x, y), dtype=float)
    if not np.all(np.isfinite(p)):
        bad("non_finite", {"params": p})
        return {"viol": viol, "n": 1, "nontrivial": 1}
    if not feasible(p, bounds, []):
        bad("outside_bounds", {"params": p, "bounds": bounds})
    for ci, c in enumerate(cons_list):
        if c["fun"](p) < -1e-6 * max(1.0, float(np.max(np.abs(p)))):
            bad("constraint_violated", {"params": p, "constraint": ci, "value": float(c["fun"](p))})
            break
    R = residual(f, p, x, y, w)
    R0 = residual(f, p_start, x, y, w)
    scale = float(np.sum((1.0 if w is None else w) * y * y))
    if np.isfinite(R0) and feasible(p_start, bounds, cons_list) and not R <= R0 * (1 + 1e-9) + 1e-12 * scale:
        bad("residual_above_start", {"R_fit": R, "R_start": R0, "params": p, "start": p_start})
    # no nearby admissible perturbation is better (projected coordinate and diagonal directions)
    k = len(p)
    dirs = [np.eye(k)[i] for i in range(k)] + [np.ones(k), np.array([(-1) ** i for i in range(k)], dtype=float)]
    found = None
    # optimiser tolerance: 1e-6 of the residual, or 0.1 % of the descent the optimiser achieved from its start
    # (curve_fit/TRF approaches active bounds asymptotically, SLSQP stops on an absolute ftol on flat ridges)
    descent = (R0 - R) if (np.isfinite(R0) and R0 > R) else 0.0
    opt_tol = max(1e-6 * R, 1e-3 * descent) + 1e-12 * scale
    if cons_list:
        opt_tol += 2e-6  # SLSQP stops on an absolute change of the objective below ftol = 1e-6
    if not viol:
        for h in (1e-3, 1e-2, 1e-1):
            for d in dirs:
                for sgn in (1.0, -1.0):
                    q = p + sgn * h * d * np.maximum(np.abs(p), 1e-3)
                    if bounds is not None:
                        for i, (lo, hi) in enumerate(bounds):
                            if lo is not None:
                                q[i] = max(q[i], lo)
                            if hi is not None:
                                q[i] = min(q[i], hi)
                    if not feasible(q, bounds, cons_list):
                        continue
                    Rq = residual(f, q, x, y, w)
                    if np.isfinite(Rq) and Rq < R - opt_tol:
                        if found is None or Rq < found[0]:
                            found = (Rq, q, h)
        if found is not None:
            bad("better_neighbour", {"R_fit": R, "R_neighbour": found[0], "params": p, "neighbour": found[1], "h": found[2]})
            # mechanism-discriminating field for the known finding: SLSQP stops on an ABSOLUTE objective change
            viol[-1]["sig"]["abs_gain_below_1e-4"] = bool(R - found[0] < 1e-4)
    # linear shapes with inactive bounds and no constraints: the unique linear least squares solution
    if linear and bk in ("none", "allnone", "inactive", "zero_both_inactive") and ck in ("none", "dict_inactive"):
        A = np.vstack([x ** i for i in range(k)]).T
        sw = np.ones_like(x) if w is None else np.sqrt(w)
        sol, *_ = np.linalg.lstsq(A * sw[:, None], y * sw, rcond=None)
        if not np.allclose(p, sol, rtol=(1e-3 if ck != "none" else 1e-5), atol=(1e-4 if ck != "none" else 1e-7)):
            bad("not_linear_lsq_solution", {"params": p, "lstsq": sol})
    active = bk in ("lower_active", "upper_active", "mixed", "zero_lower", "zero_upper") or ck in ("dict_active", "list_two")
    return {"viol": viol[:2], "n": 1, "nontrivial": 1, "outcomes": [f"{shape}:{len(viol)}"],
            "count": {"active_bound_or_constraint": int(active)}}


# ------------------------------------------------------------------------------------------- protocol (A2)
GRAPHS = {
    # name: {function: [names of functions it uses as parameters]}
    "B->A": {"A": ["B"], "B": []},
    "C->B->A": {"A": ["B"], "B": ["C"], "C": []},
    "(B,C)->A": {"A": ["B", "C"], "B": [], "C": []},
    "B->C,(B,C)->A": {"A": ["B", "C"], "C": ["B"], "B": []},
    "D->C->B->A": {"A": ["B"], "B": ["C"], "C": ["D"], "D": []},
    "(C,D)->B->A": {"A": ["B"], "B": ["C", "D"], "C": [], "D": []},
}


def _f0(x, a, b):
    return a + b * x


def _f1(x, a, b, u_of_x):
    return a + b * x + 0.5 * u_of_x(x)


def _f2(x, a, b, u_of_x, v_of_x):
    return a + b * x + 0.5 * u_of_x(x) - 0.25 * v_of_x(x)


def topo(graph):
    order, done = [], set()
    while len(order) < len(graph):
        for f, deps in sorted(graph.items()):
            if f not in done and all(d in done for d in deps):
                order.append(f)
                done.add(f)
    return order


def build_functions(graph):
    objs = {}
    for name in topo(graph):
        deps = graph[name]
        if len(deps) == 0:
            objs[name] = DependenceFunction(_f0)
        elif len(deps) == 1:
            objs[name] = DependenceFunction(_f1, u_of_x=objs[deps[0]])
        else:
            objs[name] = DependenceFunction(_f2, u_of_x=objs[deps[0]], v_of_x=objs[deps[1]])
    return objs


def data_version(name, v):
    x = np.linspace(0.5, 6.0, 7)
    k = {"A": 1.0, "B": 2.0, "C": 3.0, "D": 4.0}[name]
    y = (0.3 * k + 0.2 * v) + (0.5 / k + 0.1 * v) * x + 0.05 * np.sin(k * x + v)
    return x, y


def replay_functions(graph, hist):
    objs = build_functions(graph)
    log = []
    for name, v in hist:
        x, y = data_version(name, v)
        objs[name].fit(x, y)
        log.append((name, v))
    return objs


def reference_params(graph, last):
    """Fresh objects fitted in topological order to the last data versions (only functions that got data)."""
    objs = build_functions(graph)
    for name in topo(graph):
        if name in last:
            x, y = data_version(name, last[name])
            objs[name].fit(x, y)
    return {n: np.array(list(o.parameters.values()), dtype=float) for n, o in objs.items()}


def lstsq_reference(graph, last):
    """Independent reference: linear least squares in topological order (unique optimum, no start values)."""
    par = {}

    def value(name, x):
        a, b = par[name][:2]
        deps = graph[name]
        out = a + b * x
        if len(deps) >= 1:
            out = out + 0.5 * value(deps[0], x)
        if len(deps) == 2:
            out = out - 0.25 * value(deps[1], x)
        return out

    for name in topo(graph):
        x, y = data_version(name, last[name])
        deps = graph[name]
        off = np.zeros_like(x)
        if len(deps) >= 1:
            off = off + 0.5 * value(deps[0], x)
        if len(deps) == 2:
            off = off - 0.25 * value(deps[1], x)
        A = np.c_[np.ones_like(x), x]
        sol, *_ = np.linalg.lstsq(A, y - off, rcond=None)
        par[name] = sol
    return par


def run_protocol(case):
    gname = case["graph"]
    graph = GRAPHS[gname]
    names = sorted(graph)
    versions = case["versions"]
    events = [(n, v) for n in names for v in versions]

    def build(hist):
        return replay_functions(graph, hist)

    def enabled(hist, st):
        return events

    def canon(st):
        # finite canonical state: per function last data passed, coefficients (rounded to optimiser tolerance),
        # _may_fit and which conditioners have reported
        out = []
        for n in names:
            o = st[n]
            out.append((n, tuple(np.round(list(o.parameters.values()), 7)), bool(o._may_fit),
                        tuple(sorted(k for k, v in st.items() if v in o._fitted_conditioners)),
                        None if not hasattr(o, "y") else round(float(np.sum(o.y)), 9)))
        return tuple(out)

    stats = {"quiescent": 0, "dependent_first": 0}

    def check(hist, ev, prev, st):
        h2 = hist + [ev]
        last = {}
        for n, v in h2:
            last[n] = v
        viols = []
        if len(last) < len(names):
            return viols
        stats["quiescent"] += 1
        first_seen = []
        for n, v in h2:
            if n not in first_seen:
                first_seen.append(n)
        if any(first_seen.index(n) < first_seen.index(d) for n in names for d in graph[n]):
            stats["dependent_first"] += 1
        ref = lstsq_reference(graph, last)
        for n in names:
            got = np.array(list(st[n].parameters.values()), dtype=float)
            if not np.allclose(got, ref[n], rtol=1e-5, atol=1e-6):
                viols.append({"sig": {"check": "fit_order", "clause": "differs_from_topological_fit", "graph": gname},
                              "detail": {"function": n, "got": got, "reference": ref[n], "history": h2},
                              "case": {"kind": "protocol_single", "graph": gname, "history": h2}})
                break
        return viols

    res = history.bfs(build, enabled, canon, check, max_depth=case["max_depth"])
    viol = res["violations"][:3]
    return {"viol": viol, "n": res["traces"], "nontrivial": stats["dependent_first"],
            "outcomes": [f"{gname}:closed={res['closed']}:states={res['states']}"],
            "mc": {"states": res["states"], "transitions": res["transitions"], "traces": res["traces"]},
            "count": {"quiescent_states_checked": stats["quiescent"], "histories_dependent_fitted_first": stats["dependent_first"],
                      "closed_" + gname: int(res["closed"]), "depth_" + gname: res["depth"]},
            "closed": res["closed"], "samples": res["samples"]}


def run_protocol_single(case):
    graph = GRAPHS[case["graph"]]
    h = [tuple(e) for e in case["history"]]
    st = replay_functions(graph, h)
    last = {}
    for n, v in h:
        last[n] = v
    ref = lstsq_reference(graph, last)
    viol = []
    for n in sorted(graph):
        got = np.array(list(st[n].parameters.values()), dtype=float)
        if not np.allclose(got, ref[n], rtol=1e-5, atol=1e-6):
            viol.append({"sig": {"check": "fit_order", "clause": "differs_from_topological_fit", "graph": case["graph"]},
                         "detail": {"function": n, "got": got, "reference": ref[n]}, "case": case})
            break
    return {"viol": viol, "n": 1, "nontrivial": 1}


def run_conditional(case):
    """The same through ConditionalDistribution.fit: every permutation of the parameters dict, fit and re-fit."""
    perm = case["perm"]
    viol = []
    rs = np.random.RandomState(5)

    def make():
        beta = DependenceFunction(_f0)
        gamma = DependenceFunction(_f0)
        alpha = DependenceFunction(_f2, u_of_x=beta, v_of_x=gamma)
        d = {"alpha": alpha, "beta": beta, "gamma": gamma}
        return ConditionalDistribution(WeibullDistribution(), {k: d[k] for k in perm}), d

    def intervals(v):
        rs = np.random.RandomState(10 + v)
        cond_vals = np.array([0.7, 1.4, 2.1, 2.8, 3.5])
        data = [0.2 * g + (1.0 + 0.3 * g + 0.1 * v) * rs.weibull(1.3 + 0.1 * g, 300) for g in cond_vals]
        return data, cond_vals, [(g - 0.35, g + 0.35) for g in cond_vals]

    nfit = 0
    for hist in case["histories"]:
        cond, d = make()
        for v in hist:
            data, cv, bnd = intervals(v)
            cond.fit(data, cv, bnd, "mle")
            nfit += 1
        # reference: per-interval estimates of the last fit, dependence functions by lstsq in topological order
        est = cond.parameters_per_interval
        x = np.asarray(cond.conditioning_values, dtype=float)
        A = np.c_[np.ones_like(x), x]
        ref = {}
        for nme in ("beta", "gamma"):
            ref[nme], *_ = np.linalg.lstsq(A, np.array([e[nme] for e in est]), rcond=None)
        off = 0.5 * (ref["beta"][0] + ref["beta"][1] * x) - 0.25 * (ref["gamma"][0] + ref["gamma"][1] * x)
        ref["alpha"], *_ = np.linalg.lstsq(A, np.array([e["alpha"] for e in est]) - off, rcond=None)
        for nme in ("alpha", "beta", "gamma"):
            got = np.array(list(cond.conditional_parameters[nme].parameters.values()), dtype=float)
            if not np.allclose(got, ref[nme], rtol=1e-5, atol=1e-6):
                viol.append({"sig": {"check": "fit_order", "clause": "conditional_fit_differs_from_topological_fit"},
                             "detail": {"function": nme, "got": got, "reference": ref[nme], "perm": perm, "history": hist},
                             "case": dict(case, histories=[hist])})
                break
    return {"viol": viol[:2], "n": nfit, "nontrivial": len(case["histories"]), "outcomes": ["cond:" + ",".join(perm)]}


def run_case(case):
    k = case["kind"]
    if k == "single":
        return run_single(case)
    if k == "protocol":
        return run_protocol(case)
    if k == "protocol_single":
        return run_protocol_single(case)
    if k == "conditional":
        return run_conditional(case)
    raise ValueError(k)


def main(ctx):
    ctx.rule = ("A1: complete product shape (8) x support points {3,5,10,20} x bounds {None, all None, finite inactive, lower "
                "active, upper active, mixed, 0 as lower / upper / inactive bound} x weights {None, y, 1/x} x constraints {None, dict inactive, dict active, list of "
                "two} x start {signature/default 1, near}. A2: explicit-state BFS over ALL sequences of fit(f, data version) "
                "events on the real DependenceFunction objects for four (thorough: six, with three data versions) dependency graphs until no new canonical state "
                "appears; plus ConditionalDistribution.fit for all 6 permutations of the parameters dict x all fit/re-fit "
                "histories of length <= 2. Non-trivial: fits that return / histories in which a dependent function was given "
                "data before one of its conditioners.")
    ctx.assumptions = ["weighted residual = sum w_i r_i^2 as documented ('to linearly weight the observations with y_i')",
                       "local optimality judged on projected coordinate and two diagonal directions with relative steps "
                       "1e-3..1e-1 and optimiser tolerance 1e-6",
                       "a RuntimeError 'Failed to fit' / NotImplementedError (weighted constrained fit) is a refusal"]
    q = ctx.quick
    cases = []
    ns = (3, 5, 10, 20) if q else (3, 4, 5, 7, 10, 15, 20, 40)
    for shape in SHAPES:
        for n in ns:
            if n < len(SHAPES[shape][1]):
                continue
            for bk in ("none", "allnone", "inactive", "lower_active", "upper_active", "mixed", "zero_lower", "zero_upper",
                       "zero_both_inactive"):
                for wk in WEIGHTS:
                    for ck in ("none", "dict_inactive", "dict_active", "list_two"):
                        for start in ("default", "near", "near_reversed_keys"):
                            cases.append({"kind": "single", "shape": shape, "n": n, "bounds": bk, "weights": wk,
                                          "constraints": ck, "start": start})
    nsingle = len(cases)
    for g in GRAPHS:
        if q and g in ("D->C->B->A", "(C,D)->B->A"):
            continue
        cases.append({"kind": "protocol", "graph": g, "versions": [1, 2] if q else [1, 2, 3], "max_depth": 16})
    for perm in itertools.permutations(("alpha", "beta", "gamma")):
        cases.append({"kind": "conditional", "perm": list(perm), "histories": [[1], [2], [1, 2], [2, 1], [1, 1]]})
    for c in cases:
        ctx.axis("kind", c["kind"])
    res = ctx.pmap(cases, chunksize=1, label="depfit")
    closed = all(r.get("closed", True) for r in res if r)
    if not closed:
        ctx.cap("state space of a dependency graph did not close within the depth bound")
    for r in res:
        if r and r.get("samples"):
            ctx.sample({"protocol_histories": r["samples"][:3]}, force=True)
    ctx.extra["single_fit_cases"] = nsingle
    ctx.extra["protocol_search_closed"] = closed
