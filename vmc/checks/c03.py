"""C03 - direct-sampling contour edges are (1-alpha)-quantile tangent lines of the sample (lattice exploration)."""

import itertools

import numpy as np

from virocon import DirectSamplingContour

from .. import zoo

PROPERTY = "C03"
LEVEL = "exploration"

DIVISORS = [d for d in range(1, 61) if 360 % d == 0]  # 19 divisors of 360 in [1, 60]
FLOAT_STEPS = [1.5, 2.5, 4.5, 7.5, 22.5, 5.0, 12.0]      # non-integer steps that divide 360, and float spellings
ALPHAS = [1e-4, 1e-3, 0.01, 0.1, 0.3]


def cloud(kind, n, seed):
    rs = np.random.RandomState(1000 + seed)
    if kind == "hs_tz":
        m, _ = zoo.build_model(["WeibullDistribution", "LogNormalDistribution"], [None, 0], "A")
        return m.draw_sample(n, random_state=seed)
    if kind == "ew_ew":
        m, _ = zoo.build_model(["ExponentiatedWeibullDistribution", "ExponentiatedWeibullDistribution"], [None, 0], "B")
        return m.draw_sample(n, random_state=seed)
    if kind == "ln_normal":
        m, _ = zoo.build_model(["LogNormalDistribution", "NormalDistribution"], [None, 0], "A")
        return m.draw_sample(n, random_state=seed)
    if kind == "rounded":
        m, _ = zoo.build_model(["WeibullDistribution", "LogNormalDistribution"], [None, 0], "A")
        return np.round(m.draw_sample(n, random_state=seed), 1)
    if kind == "heavy":
        return np.c_[np.exp(rs.normal(0, 1.5, n)), np.exp(rs.normal(0.5, 1.5, n))]
    if kind == "lattice":
        return np.c_[rs.randint(0, 12, n).astype(float), rs.randint(0, 7, n).astype(float)]
    if kind == "lattice_int":      # integer dtype (counts, whole centimetres), with ties and negative values
        return np.c_[rs.randint(-3, 12, n), rs.randint(0, 7, n)].astype(np.int64)
    if kind == "counts_int32":
        return np.c_[rs.poisson(6.0, n), rs.poisson(2.5, n) - 2].astype(np.int32)
    raise ValueError(kind)


class _M2:
    n_dim = 2


def judge(coords, sample, alpha, deg_step):
    """Returns None if every edge is a (1-alpha)-quantile tangent line with normals advancing by the step,
    else (clause, detail)."""
    K = int(round(360 / deg_step))
    V = np.asarray(coords, dtype=float)
    if V.ndim != 2 or V.shape[1] != 2:
        return "shape", {"shape": list(V.shape)}
    if len(V) != K:
        return "vertex_count", {"vertices": len(V), "expected": K}
    if not np.all(np.isfinite(V)):
        return "non_finite", {}
    x, y = np.asarray(sample, dtype=float).T
    n = len(x)
    p = 1 - alpha
    lo_k = max(1, int(np.floor(n * p))) - 1          # 0-based index of z_(floor(np))
    hi_k = min(n, int(np.ceil(n * p)) + 1) - 1       # 0-based index of z_(ceil(np)+1)
    scale = max(np.max(np.abs(V)), np.max(np.abs(x)), np.max(np.abs(y)), 1e-300)
    tol = 1e-9 * scale
    step = np.deg2rad(deg_step)
    W = np.roll(V, -1, axis=0)
    E = W - V
    L = np.hypot(E[:, 0], E[:, 1])
    j = int(np.argmax(L))
    if L[j] <= 1e-9 * scale:
        return "all_edges_degenerate", {}
    base = np.arctan2(E[j, 1], E[j, 0]) + np.pi / 2
    best = None
    for sgn in (0.0, np.pi):
        for rot in (-1.0, 1.0):
            fails = []
            for i in range(K):
                th = base + sgn + rot * (i - j) * step
                c, s = np.cos(th), np.sin(th)
                z = x * c + y * s
                part = np.partition(z, [lo_k, hi_k])
                lo, hi = part[lo_k], part[hi_k]
                for P in (V[i], W[i]):
                    off = P[0] * c + P[1] * s
                    if not (lo - tol <= off <= hi + tol):
                        fails.append({"edge": i, "normal_deg": float(np.rad2deg(th) % 360), "vertex": P.tolist(),
                                      "offset": float(off), "quantile_bracket": [float(lo), float(hi)]})
                        break
                if len(fails) > 3:
                    break
            if not fails:
                return None
            if best is None or len(fails) < len(best):
                best = fails
    return "edge_not_quantile_tangent", best[0]


def run_case(case):
    kind, n, seed = case["cloud"], case["n"], case["seed"]
    viol = []
    ncont = 0
    nontriv = 0
    outcomes = set()
    S = cloud(kind, n, seed) if kind != "model_draw" else None
    for alpha, step in itertools.product(case["alphas"], case["steps"]):
        sub = dict(case, alphas=[alpha], steps=[step])

        def bad(clause, detail):
            sig = {"check": "ds_contour", "clause": clause}
            if clause == "vertex_count":
                sig["extra_vertices"] = detail["vertices"] - detail["expected"]
            if not any(v["sig"] == sig for v in viol):
                viol.append({"sig": sig, "detail": detail, "case": sub})

        try:
            if kind == "model_draw":
                m, _ = zoo.build_model(["WeibullDistribution", "LogNormalDistribution"], [None, 0], "A")
                np.random.seed(case_seed(seed, alpha))
                c = DirectSamplingContour(m, alpha, deg_step=step)
                sample = c.sample
                if sample is None or len(sample) != int(100 / alpha) or c.n != int(100 / alpha):
                    bad("default_sample_size", {"len": None if sample is None else len(sample), "expected": int(100 / alpha)})
                    continue
            else:
                S_in = S.copy()
                c = DirectSamplingContour(_M2(), alpha, deg_step=step, sample=S)
                sample = S
                if not np.array_equal(S, S_in):
                    bad("sample_mutated", {})
        except Exception as e:
            bad("exception", {"type": type(e).__name__, "msg": str(e)[:200]})
            continue
        ncont += 1
        r = judge(c.coordinates, sample, alpha, step)
        if n * alpha >= 2 or kind == "model_draw":
            nontriv += 1
        outcomes.add("ok" if r is None else r[0])
        if r is not None:
            bad(r[0], r[1])
    return {"viol": viol, "n": ncont, "nontrivial": nontriv, "outcomes": list(outcomes)}


def case_seed(seed, alpha):
    return (seed * 7919 + int(1e6 * alpha)) % (2 ** 31)


def main(ctx):
    ctx.rule = ("complete product: point cloud {3 model samples, rounded (ties), heavy-tailed, float lattice, int64 lattice with negative values, int32 counts} x n x seed x alpha in "
                "{1e-4,1e-3,.01,.1,.3} (plus every n in 50..260 and n = 500, 501, 1001, 2001, 4001, 5001, 10001 for two clouds with alpha also .05, .2, .25) x deg_step in the 19 integer divisors of 360 in [1,60] and 7 float steps (1.5, 2.5, 4.5, 7.5, 22.5, 5.0, 12.0); plus sample=None (drawn from the "
                "model, global RNG seeded). evaluations = contours; non-trivial = at least 2 sample points lie beyond each "
                "tangent line (n*alpha >= 2).")
    ctx.assumptions = ["the empirical quantile may follow any Hyndman-Fan definition: offset must lie between the order "
                       "statistics z_(floor(np)) and z_(ceil(np)+1)",
                       "orientation (clockwise/counter-clockwise) and start angle of the normals are not prescribed"]
    q = ctx.quick
    ns = (50, 200, 1000, 5000) if q else (50, 200, 1000, 5000, 20000)
    steps = DIVISORS + FLOAT_STEPS
    seeds = (1, 2) if q else (1, 2, 3, 4)
    cases = []
    for kind in ("hs_tz", "ew_ew", "ln_normal", "rounded", "heavy", "lattice", "lattice_int", "counts_int32"):
        for n in ns:
            for seed in seeds:
                for st in steps:
                    cases.append({"cloud": kind, "n": n, "seed": seed + ctx.seed * 0, "alphas": ALPHAS, "steps": [st]})
    # every sample size 50..260 and sizes 10^k+1 etc.: (n-1)(1-alpha), n(1-alpha) hit integers for some of them only
    for kind in ("hs_tz", "lattice"):
        for n in list(range(50, 261)) + [500, 501, 1001, 2001, 4001, 5001, 10001]:
            cases.append({"cloud": kind, "n": n, "seed": 1, "alphas": ALPHAS + [0.05, 0.2, 0.25], "steps": [6, 10, 45]})
    for alpha in (0.3, 0.07, 0.01):
        for st in (5, 6, 30):
            cases.append({"cloud": "model_draw", "n": int(100 / alpha), "seed": 5 + ctx.seed, "alphas": [alpha], "steps": [st]})
    for c in cases:
        ctx.axis("cloud", c["cloud"])
        ctx.axis("deg_step", c["steps"][0])
    ctx.pmap(cases, chunksize=2, label="ds")
