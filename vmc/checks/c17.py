"""C17 - design conditions lie on the contour at the requested abscissa (top ordinate); the curve-intersection
routine returns exactly the crossing points of polylines in general position. Exact rational reference."""

import itertools
from fractions import Fraction as Fr

import numpy as np

from virocon import calculate_design_conditions
from virocon._intersection import intersection

from .. import zoo

PROPERTY = "C17"
LEVEL = "exploration"


# ------------------------------------------------------------------ (a) polyline intersection, exact
def _cross(ax, ay, bx, by):
    return ax * by - ay * bx


def seg_relation(p, q, r, s):
    """('cross', point) for a proper interior crossing, ('none', None), or ('degenerate', None) if the segments touch
    at an end point or overlap collinearly (not general position). Integer/Fraction arithmetic."""
    d1 = _cross(q[0] - p[0], q[1] - p[1], r[0] - p[0], r[1] - p[1])
    d2 = _cross(q[0] - p[0], q[1] - p[1], s[0] - p[0], s[1] - p[1])
    d3 = _cross(s[0] - r[0], s[1] - r[1], p[0] - r[0], p[1] - r[1])
    d4 = _cross(s[0] - r[0], s[1] - r[1], q[0] - r[0], q[1] - r[1])
    if d1 * d2 < 0 and d3 * d4 < 0:
        t = Fr(d3, d3 - d4)
        return "cross", (p[0] + t * (q[0] - p[0]), p[1] + t * (q[1] - p[1]))

    def on(a, b, c):  # c on closed segment ab, given collinear
        return min(a[0], b[0]) <= c[0] <= max(a[0], b[0]) and min(a[1], b[1]) <= c[1] <= max(a[1], b[1])

    if (d1 == 0 and on(p, q, r)) or (d2 == 0 and on(p, q, s)) or (d3 == 0 and on(r, s, p)) or (d4 == 0 and on(r, s, q)):
        return "degenerate", None
    return "none", None


def exact_crossings(A, B):
    """A, B lists of integer points (polylines). Returns list of exact crossing points or None if not general position."""
    pts = []
    for i in range(len(A) - 1):
        if A[i] == A[i + 1]:
            return None
        for j in range(len(B) - 1):
            if B[j] == B[j + 1]:
                return None
            rel, pt = seg_relation(A[i], A[i + 1], B[j], B[j + 1])
            if rel == "degenerate":
                return None
            if rel == "cross":
                pts.append(pt)
    return pts


def run_intersection_batch(case):
    L, na, nb = case["lattice"], case["segs_a"], case["segs_b"]
    lat = [(i, j) for i in range(L) for j in range(L)]
    first = lat[case["first"]]
    viol, n, nontriv = [], 0, 0
    outcomes = set()
    Bs = [list(b) for b in itertools.product(lat, repeat=nb + 1) if all(b[k] != b[k + 1] for k in range(nb))]
    for rest in itertools.product(lat, repeat=na):
        A = [first] + list(rest)
        if any(A[k] == A[k + 1] for k in range(na)):
            continue
        x1 = np.array([p[0] for p in A], dtype=float)
        y1 = np.array([p[1] for p in A], dtype=float)
        for B in Bs:
            exp = exact_crossings(A, B)
            if exp is None:
                continue
            n += 1
            x2 = np.array([p[0] for p in B], dtype=float)
            y2 = np.array([p[1] for p in B], dtype=float)
            gx, gy = intersection(x1, y1, x2, y2)
            got = sorted(zip(np.round(gx, 9).tolist(), np.round(gy, 9).tolist()))
            want = sorted((round(float(a), 9), round(float(b), 9)) for a, b in exp)
            if exp:
                nontriv += 1
            outcomes.add(len(exp))
            ok = len(got) == len(want) and all(abs(g[0] - w[0]) <= 1e-8 and abs(g[1] - w[1]) <= 1e-8 for g, w in zip(got, want))
            if not ok and len(viol) < 3:
                viol.append({"sig": {"check": "intersection", "clause": "crossings_differ",
                                     "missing": len(got) < len(want), "extra": len(got) > len(want)},
                             "detail": {"got": got, "expected": want},
                             "case": {"kind": "intersection_single", "A": A, "B": B}})
    return {"viol": viol, "n": n, "nontrivial": nontriv, "outcomes": [f"x{o}" for o in outcomes]}


def run_intersection_single(case):
    A = [tuple(p) for p in case["A"]]
    B = [tuple(p) for p in case["B"]]
    exp = exact_crossings(A, B)
    if exp is None:
        return {"viol": [], "n": 0, "nontrivial": 0}
    gx, gy = intersection(np.array([p[0] for p in A], float), np.array([p[1] for p in A], float),
                          np.array([p[0] for p in B], float), np.array([p[1] for p in B], float))
    got = sorted(zip(np.round(gx, 9).tolist(), np.round(gy, 9).tolist()))
    want = sorted((round(float(a), 9), round(float(b), 9)) for a, b in exp)
    ok = len(got) == len(want) and all(abs(g[0] - w[0]) <= 1e-8 and abs(g[1] - w[1]) <= 1e-8 for g, w in zip(got, want))
    viol = [] if ok else [{"sig": {"check": "intersection", "clause": "crossings_differ", "missing": len(got) < len(want),
                                   "extra": len(got) > len(want)}, "detail": {"got": got, "expected": want}, "case": case}]
    return {"viol": viol, "n": 1, "nontrivial": 1}


# ------------------------------------------------------------------ (b) design conditions, exact
class _C:
    def __init__(self, coords):
        self.coordinates = coords


def exact_top(P, a):
    """Largest ordinate of the closed polygon P (float vertices, exact) on the vertical line x=a; None if no crossing."""
    a = Fr(a)
    best = None
    n = len(P)
    for i in range(n):
        x1, y1 = Fr(float(P[i][0])), Fr(float(P[i][1]))
        x2, y2 = Fr(float(P[(i + 1) % n][0])), Fr(float(P[(i + 1) % n][1]))
        if x1 == x2:
            if x1 == a:
                c = max(y1, y2)
            else:
                continue
        else:
            if not (min(x1, x2) <= a <= max(x1, x2)):
                continue
            c = y1 + (a - x1) / (x2 - x1) * (y2 - y1)
        if best is None or c > best:
            best = c
    return best


def near_vertex(P, a, tol):
    return bool(np.any(np.abs(np.asarray(P)[:, 0] - a) <= tol))


def polygon(case):
    k = case["poly"]
    if k == "star":
        m = len(case["radii"])
        phi = 2 * np.pi * np.arange(m) / m
        r = np.array(case["radii"], dtype=float)
        P = np.c_[r * np.cos(phi), r * np.sin(phi)]
        return P + np.array(case.get("shift", [0.0, 0.0]))
    if k == "contour":
        from virocon import IFORMContour, ISORMContour, DirectSamplingContour
        m, _ = zoo.build_model(case["fams"], [None, 0], case["assign"])
        if case["cls"] == "IFORM":
            return np.asarray(IFORMContour(m, case["alpha"], n_points=case["n_points"]).coordinates, dtype=float)
        if case["cls"] == "ISORM":
            return np.asarray(ISORMContour(m, case["alpha"], n_points=case["n_points"]).coordinates, dtype=float)
        S = m.draw_sample(2000, random_state=3)
        return np.asarray(DirectSamplingContour(m, case["alpha"], deg_step=10, sample=S).coordinates, dtype=float)
    raise ValueError(k)


def steps_variants(P, swap):
    xs = P[:, 1] if swap else P[:, 0]
    lo, hi = float(np.min(xs)), float(np.max(xs))
    u = np.unique(xs)
    mids = ((u[:-1] + u[1:]) / 2).tolist()
    out = [("none", None), ("int1", 1), ("int2", 2), ("int5", 5), ("int10", 10),
           ("mids", mids[:12]),
           ("outside", [lo - 1.0, hi + 0.5, (lo + hi) / 2]),
           ("at_vertices", u[1:-1].tolist()[:8])]
    return out


def judge_dc(P, steps, swap):
    """Returns list of (clause, detail)."""
    out = []
    Q = P[:, ::-1] if swap else P
    xs = Q[:, 0]
    lo, hi = float(np.min(xs)), float(np.max(xs))
    rng = hi - lo
    scale = max(float(np.max(np.abs(Q))), 1e-300)
    tol = 1e-9 * scale
    P_in = P.copy()
    try:
        dc = calculate_design_conditions(_C(P), steps=steps, swap_axis=swap)
    except Exception as e:
        return [("exception", {"type": type(e).__name__, "msg": str(e)[:200], "steps": steps, "swap_axis": swap})]
    if not np.array_equal(P, P_in):
        out.append(("contour_mutated", {}))
    dc = np.asarray(dc, dtype=float)
    if steps is None or np.ndim(steps) == 0:
        num = 10 if steps is None else int(steps)
        req = np.linspace(lo + 1e-4 * rng, hi - 1e-4 * rng, num=num, endpoint=True)
    else:
        req = np.asarray(steps, dtype=float)
    if dc.size == 0:
        dc = dc.reshape(0, 2)
    if dc.ndim != 2 or dc.shape[1] != 2:
        return out + [("shape", {"shape": list(dc.shape)})]
    # The top ordinate is discontinuous in the abscissa where the polygon has a vertical tangent vertex; an abscissa is
    # a rounded float, so a result is accepted if it is exact for the abscissa itself or for a neighbour within
    # delta = 1e-12 * scale (and an abscissa must be present / absent only if all three agree).
    delta = 1e-12 * scale
    got = {}
    for row in dc:
        got.setdefault(float(row[0]), []).append(float(row[1]))
    used = set()
    for a in req:
        a = float(a)
        tops = [exact_top(Q, a + d) for d in (0.0, -delta, delta)]
        present = [t for t in tops if t is not None]
        ys = got.get(a)
        if ys is None:
            # tolerate a returned abscissa that differs in the last bits (it must be returned unchanged, checked below)
            near = [g for g in got if abs(g - a) <= 1e-15 * max(1.0, abs(a))]
            if near:
                out.append(("abscissa_changed", {"requested": a, "returned": near[0]}))
                return out
            if len(present) == 3:
                out.append(("abscissae_set", {"missing": [a], "extra": [], "returned": len(dc), "swap_axis": swap,
                                              "steps": steps if steps is None or np.ndim(steps) == 0 else list(steps)[:8],
                                              "missing_at_vertex": near_vertex(Q, a, 1e-9 * scale)}))
                return out
            continue
        used.add(a)
        if not present:
            out.append(("abscissae_set", {"missing": [], "extra": [a], "returned": len(dc), "swap_axis": swap,
                                          "steps": steps if steps is None or np.ndim(steps) == 0 else list(steps)[:8],
                                          "missing_at_vertex": False}))
            return out
        y = ys[0]
        if len(ys) > 1 and list(req).count(a) < len(ys):
            out.append(("duplicate_rows", {"abscissa": a}))
            return out
        # between a-delta and a+delta the top ordinate sweeps the interval spanned by the three exact values
        # (a nearly vertical edge), so any value in that interval is exact for some abscissa within rounding
        if not (float(min(present)) - tol <= y <= float(max(present)) + tol):
            out.append(("not_top_ordinate", {"abscissa": a, "returned": y, "top": float(present[0]), "swap_axis": swap}))
            return out
    extra = [g for g in got if g not in used]
    if extra:
        out.append(("abscissae_set", {"missing": [], "extra": extra[:4], "returned": len(dc), "swap_axis": swap,
                                      "steps": steps if steps is None or np.ndim(steps) == 0 else list(steps)[:8],
                                      "missing_at_vertex": False}))
        return out
    # order of rows follows the order of the requested abscissae
    order = [float(a) for a in req if float(a) in got]
    if [float(r[0]) for r in dc] != order and len(set(order)) == len(order):
        out.append(("row_order", {"returned": dc[:, 0].tolist()[:6], "expected": order[:6]}))
    return out


def run_dc(case):
    viol, n, nontriv = [], 0, 0
    outcomes = set()
    polys = []
    if case["poly"] == "star_batch":
        m = case["m"]
        for radii in itertools.product((1, 2, 3), repeat=m - 1):
            polys.append({"poly": "star", "radii": [case["r0"]] + list(radii), "shift": case["shift"]})
    else:
        polys.append(case)
    for pc in polys:
        P = polygon(pc)
        for swap in (False, True):
            for name, steps in steps_variants(P, swap):
                if case["poly"] == "star_batch" and name in ("int1", "int2") and swap:
                    continue
                n += 1
                res = judge_dc(P, steps, swap)
                # non-trivial: non-convex polygon (some probe has > 2 crossings) is approximated by radii variation
                nontriv += 1
                outcomes.add(name + ":" + ("ok" if not res else res[0][0]))
                for clause, detail in res:
                    sig = {"check": "design_conditions", "clause": clause}
                    if clause == "exception":
                        sig["exc"] = detail["type"]
                    if clause == "abscissae_set":
                        sig["missing_at_vertex"] = detail["missing_at_vertex"]
                    if not any(v["sig"] == sig for v in viol):
                        sub = dict(pc, kind="dc_single", steps_name=name, swap=swap)
                        viol.append({"sig": sig, "detail": detail, "case": sub})
    return {"viol": viol, "n": n, "nontrivial": nontriv, "outcomes": list(outcomes)}


def run_case(case):
    k = case.get("kind")
    if k == "intersection_batch":
        return run_intersection_batch(case)
    if k == "intersection_single":
        return run_intersection_single(case)
    if k == "dc_single":
        P = polygon(case)
        steps = dict(steps_variants(P, case["swap"]))[case["steps_name"]]
        res = judge_dc(P, steps, case["swap"])
        viol = []
        for clause, detail in res:
            sig = {"check": "design_conditions", "clause": clause}
            if clause == "exception":
                sig["exc"] = detail["type"]
            if clause == "abscissae_set":
                sig["missing_at_vertex"] = detail["missing_at_vertex"]
            viol.append({"sig": sig, "detail": detail, "case": case})
        return {"viol": viol, "n": 1, "nontrivial": 1}
    return run_dc(case)


def main(ctx):
    ctx.rule = ("(a) ALL pairs (polyline with 2 segments on an LxL integer lattice) x (segment on the lattice) and (3 segments) "
                "x (2 segments) on 3x3, filtered to general position by exact integer arithmetic; (b) ALL star-shaped polygons "
                "with radii in {1,2,3} over m directions (m=6,7 quick; 6,7,8 thorough), three translations, plus IFORM/ISORM/"
                "direct-sampling contours; x steps {None, 1, 2, 5, 10, mid-points between vertex abscissae, values outside "
                "the extent, values exactly at vertex abscissae} x swap_axis. evaluations = intersection calls + "
                "design-condition calls; non-trivial = pairs with at least one crossing / all design-condition calls.")
    ctx.assumptions = ["exact rational arithmetic (fractions.Fraction) on the exact values of the float vertices",
                       "general position for the intersection routine: no end-point contact, no collinear overlap"]
    q = ctx.quick
    cases = []
    L = 3 if q else 4
    for first in range(L * L):
        cases.append({"kind": "intersection_batch", "lattice": L, "segs_a": 2, "segs_b": 1, "first": first})
    if not q:
        for first in range(9):
            cases.append({"kind": "intersection_batch", "lattice": 3, "segs_a": 3, "segs_b": 2, "first": first})
    else:
        for first in (0, 4):
            cases.append({"kind": "intersection_batch", "lattice": 3, "segs_a": 3, "segs_b": 2, "first": first})
    for m in ((6, 7) if q else (6, 7, 8)):
        for r0 in (1, 2, 3):
            for shift in ([0.0, 0.0], [5.0, 4.0], [-5.0, -6.0]):
                if shift != [0.0, 0.0] and m != 6:
                    continue
                cases.append({"kind": "dc", "poly": "star_batch", "m": m, "r0": r0, "shift": shift})
    for fams in (["WeibullDistribution", "LogNormalDistribution"], ["LogNormalDistribution", "NormalDistribution"],
                 ["ExponentiatedWeibullDistribution", "WeibullDistribution"]):
        for cls in ("IFORM", "ISORM", "DS"):
            for alpha in (1e-3, 0.1):
                for npts in (20, 180):
                    cases.append({"kind": "dc", "poly": "contour", "fams": fams, "assign": "A", "cls": cls, "alpha": alpha,
                                  "n_points": npts})
    for c in cases:
        ctx.axis("kind", c["kind"] + ":" + str(c.get("poly", "")))
    ctx.pmap(cases, label="geom")
