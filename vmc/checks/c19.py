"""C19 - evaluation is pure and repeatable; predefined models share no state (explicit-state model checking on the
real objects: BFS over histories of evaluate / contour / plot / save / fit events, canonical deep snapshots)."""

import itertools
import os
import shutil
import tempfile
import warnings

import numpy as np

import virocon
from virocon import (AndContour, DependenceFunction, DirectSamplingContour, GlobalHierarchicalModel, HighestDensityContour,
                     IFORMContour, ISORMContour, OrContour, WeibullDistribution, calculate_design_conditions,
                     save_contour_coordinates)
from virocon import variable_transform as vt
from virocon.distributions import ConditionalDistribution

from .. import history, zoo

PROPERTY = "C19"
LEVEL = "model_checking"

GETTERS = ["get_DNVGL_Hs_Tz", "get_DNVGL_Hs_U", "get_OMAE2020_Hs_Tz", "get_OMAE2020_V_Hs", "get_Windmeier_EW_Hs_S",
           "get_Nonzero_EW_Hs_S"]


def data_for(name, n=2500, seed=3):
    rs = np.random.RandomState(seed)
    if name == "get_OMAE2020_V_Hs":
        n = 4000
        u = rs.uniform(size=n)
        v = 10.0 * (-np.log(1 - u ** (1 / 0.761))) ** (1 / 2.42)
        beta = 0.582 + 1.90 / (1 + np.exp(-0.248 * (v - 8.49)))
        alpha = (0.394 + 0.0178 * v ** 1.88) / 2.0445 ** (1 / beta)
        u2 = rs.uniform(size=n)
        return np.c_[v, alpha * (-np.log(1 - u2 ** (1 / 5.0))) ** (1 / beta)]
    hs = 1.8 * rs.weibull(1.45, n) + 0.15
    tz = np.exp(np.log(3.0 + 1.6 * np.sqrt(hs)) + (0.08 + 0.12 / (1 + 0.5 * hs)) * rs.normal(size=n))
    if name in ("get_DNVGL_Hs_Tz", "get_OMAE2020_Hs_Tz"):
        return np.c_[hs, tz]
    if name == "get_DNVGL_Hs_U":
        return np.c_[hs, (2.5 + 3.0 * hs ** 0.9) * rs.weibull(2.2 + 0.4 * hs, n) / 0.886]
    return np.c_[hs, vt.factor * hs / tz ** 2]


class World:
    """All objects of one execution. Created fresh for every replay."""

    def __init__(self, getter, three_d):
        self.A, _ = zoo.build_model(["WeibullDistribution", "LogNormalDistribution"], [None, 0], "A")
        self.A3, _ = zoo.build_model(["WeibullDistribution", "LogNormalDistribution", "ExponentiatedWeibullDistribution"],
                                     [None, 0, 1], "A") if three_d else (None, None)
        self.X = np.array([[0.8, 2.0], [1.5, 3.0], [2.5, 2.5], [4.0, 5.0], [0.0, 1.0]])
        self.X3 = np.array([[0.8, 2.0, 1.0], [2.5, 2.5, 3.0]])
        self.Xneg = np.array([-1.0, 0.0, 0.5, 2.0, 7.0])
        # caller-owned option containers
        self.limits = [(0, 8), (0, 10)]
        self.limits_rev = [(8, 0), (0, 10)]                 # reversed tuple: accepted (min/max are taken)
        self.limits_arr = np.array([[0.0, 8.0], [10.0, 0.0]])
        self.deltas = [0.25, 0.25]
        self.steps = [1.0, 2.0, 3.0]
        # the same options as float64 arrays in non-monotonic order (np.asarray does not copy these: an in-place sort,
        # clip or scaling of "a local" then writes into the caller's array)
        self.steps_arr = np.array([3.0, 1.0, 2.5, 2.0])
        self.deltas_arr = np.array([0.5, 0.25])
        self.Pu = np.array([0.9, 0.1, 0.5])
        self.dc_arr = np.array([[3.0, 5.0], [1.0, 3.0], [2.0, 4.0]])
        self.sem = {"names": ["Wave height", "Period"], "symbols": ["H_s", "T_z"], "units": ["m", "s"]}
        self.P = np.array([0.1, 0.5, 0.99])
        self.S = np.asarray(self.A.draw_sample(400, random_state=12), dtype=float)
        g = getattr(virocon, getter)
        self.getter = g
        self.Bdesc = g()
        self.B2desc = g()
        self.B = GlobalHierarchicalModel(self.Bdesc[0])
        self.B2 = GlobalHierarchicalModel(self.B2desc[0])
        self.D = data_for(getter)
        self.T = WeibullDistribution(alpha=1.7, beta=1.3, f_gamma=0.2)
        self.W = ConditionalDistribution(self.T, {"alpha": DependenceFunction(_lin), "beta": DependenceFunction(_lin)})
        self.Tparams0 = dict(self.T.parameters)
        self.tmp = None
        # a seeded TransformedModel (Hs-steepness model seen in Hs-Tz): its Monte-Carlo queries must be repeatable and leave it unchanged
        from . import c16
        _, self.TM, _ = c16.build("windmeier", 0.1, 5)
        _, self.TM0, _ = c16.build("windmeier", 0.1, 0)       # seed 0 is a seed like any other (falsy in python)

    def snapshot_parts(self, digits=None):
        parts = {"A": self.A, "A3": self.A3, "X": self.X, "X3": self.X3, "Xneg": self.Xneg, "P": self.P,
                 "options": [self.limits, self.limits_rev, self.limits_arr, self.deltas, self.steps, self.sem, self.steps_arr, self.deltas_arr, self.Pu, self.dc_arr], "S": self.S, "D": self.D, "T": self.T,
                 "W": self.W, "B": self.B, "B2": self.B2, "Bdesc": self.Bdesc, "B2desc": self.B2desc, "TM": self.TM, "TM0": self.TM0}
        out = {k: history.digest(v, digits if k in ("W", "B", "B2", "Bdesc", "B2desc") else None) for k, v in parts.items()}
        out["process_globals"] = _globals_digest()
        return out

    def state_key(self):
        """Canonical state for de-duplication: fitted objects rounded to 3 significant digits (a re-fit starts from the
        previous estimate and ends within optimiser tolerance of it), which of them were fitted, everything else exact."""
        fitted = (hasattr(self.B.distributions[-1], "parameters_per_interval"),
                  hasattr(self.B2.distributions[-1], "parameters_per_interval"), hasattr(self.W, "parameters_per_interval"))
        exact = self.snapshot_parts()
        return (fitted, tuple(sorted((k, v) for k, v in exact.items() if k not in ("W", "B", "B2", "Bdesc", "B2desc"))))


def _globals_digest():
    """Process-wide settings that no evaluation may change: matplotlib rcParams, warnings filters, numpy error and print
    settings (a library call that changes them alters the behaviour of unrelated user code)."""
    import hashlib
    import warnings as _w
    import matplotlib
    # (backend / backend_fallback are resolved by matplotlib itself on the first use of pyplot)
    rc = repr(sorted((k, repr(v)) for k, v in matplotlib.rcParams.items() if k not in ("backend", "backend_fallback")))
    wf = repr([(f[0], getattr(f[1], "pattern", f[1]), getattr(f[2], "__name__", f[2]), getattr(f[3], "pattern", f[3]), f[4]) for f in _w.filters])
    ne = repr(sorted(np.geterr().items())) + repr(sorted((k, repr(v)) for k, v in np.get_printoptions().items()))
    return hashlib.sha1((rc + wf + ne).encode()).hexdigest()


def _lin(x, a=1.0, b=0.1):
    return a + b * x


def _res(o):
    """hashable exact digest of a returned result"""
    if isinstance(o, tuple):
        return tuple(_res(v) for v in o)
    try:
        return history.digest(np.asarray(o, dtype=float))
    except Exception:
        return history.digest(o)


# ---- events: name -> (kind, function(world) -> result digest). kind: "eval" (pure, deterministic) or a fit kind
def _contour(cls, **kw):
    def run(w):
        return _res(cls(w.A, 0.05, **kw).coordinates)
    return run


def ev_ds(w):
    return _res(DirectSamplingContour(w.A, 0.05, deg_step=20, sample=w.S).coordinates)


def ev_and(w):
    np.random.seed(5)
    return _res([list(map(float, r)) for r in AndContour(w.A, 0.1, deg_step=30, sample=w.S, allowed_error=0.2).coordinates])


def ev_or(w):
    np.random.seed(5)
    c = OrContour(w.A, 0.1, deg_step=30, sample=w.S, allowed_error=0.2).coordinates
    return _res([[float(np.asarray(v).reshape(-1)[0]) for v in r] for r in c])


def ev_design(w):
    c = IFORMContour(w.A, 0.05, n_points=30)
    return (_res(calculate_design_conditions(c, steps=4)), _res(calculate_design_conditions(c, steps=w.steps)),
            _res(calculate_design_conditions(c, steps=w.steps, swap_axis=True)),
            _res(calculate_design_conditions(c, steps=w.steps_arr)), _res(calculate_design_conditions(c, steps=w.steps_arr, swap_axis=True)))


def ev_plots(w):
    import matplotlib
    matplotlib.use("Agg")
    import matplotlib.pyplot as plt
    from virocon import plot_2D_contour, plot_2D_isodensity, plot_dependence_functions
    c = IFORMContour(w.A, 0.05, n_points=30)
    plot_2D_contour(c, sample=w.S, design_conditions=True, semantics=w.sem)
    plot_2D_contour(c, sample=w.S, design_conditions=w.dc_arr, swap_axis=True)
    plot_2D_isodensity(w.A, w.S, n_grid_steps=20, limits=w.limits, semantics=w.sem)
    plot_dependence_functions(w.A)
    plt.close("all")
    return "plots"


def ev_save(w):
    d = tempfile.mkdtemp(prefix="vmc_c19_")
    try:
        c = IFORMContour(w.A, 0.05, n_points=10)
        save_contour_coordinates(c, os.path.join(d, "c"), w.sem)
        with open(os.path.join(d, "c.txt")) as f:
            return history.digest(f.read())
    finally:
        shutil.rmtree(d, ignore_errors=True)


def ev_dist_methods(w):
    out = []
    for dist, given in ((w.A.distributions[0], None), (w.A.distributions[1], w.X[:, 0])):
        kw = {} if given is None else {"given": given}
        out.append(_res(dist.pdf(w.X[:, 1], **kw)))
        out.append(_res(dist.cdf(w.X[:, 1], **kw)))
        kwp = {} if given is None else {"given": given[:3]}
        out.append(_res(dist.icdf(w.P, **kwp)))
    return tuple(out)


def ev_readonly_inputs(w):
    """the same evaluation with read-only caller arrays: an in-place write raises"""
    X = w.X.copy()
    X.setflags(write=False)
    S = w.S.copy()
    S.setflags(write=False)
    P = w.P.copy()
    P.setflags(write=False)
    r = [_res(w.A.pdf(X)), _res(w.A.distributions[0].pdf(X[:, 0])), _res(w.A.distributions[0].icdf(P)),
         _res(w.A.distributions[1].cdf(X[:, 1], given=X[:, 0])),
         _res(DirectSamplingContour(w.A, 0.05, deg_step=30, sample=S).coordinates)]
    from virocon import ExponentiatedWeibullDistribution
    r.append(_res(ExponentiatedWeibullDistribution(2, 1.5, 2).pdf(X[:, 0])))
    return tuple(r)


def ev_all_families_writable(w):
    """every family evaluated on the caller's own (writable) arrays, incl. zeros and negative values"""
    out = []
    for fam in zoo.FAMILIES:
        d = zoo.make(fam, zoo.MID[fam])
        out.append(_res(d.pdf(w.Xneg)))
        out.append(_res(d.cdf(w.Xneg)))
        out.append(_res(d.icdf(w.P)))
        out.append(_res(d.icdf(w.Pu)))
        out.append(_res(d.pdf(w.X[:, 0])))
    return tuple(out)


def ev_two_point_sets(w):
    """the same methods on the same objects with two different point sets of the same shape: the second result must equal
    that of freshly built objects (a cache keyed on the object / the shape of the argument would return stale values)"""
    X2 = w.X + 0.37
    P2 = np.array([0.2, 0.6, 0.9])
    out = []
    for X_, P_ in ((w.X, w.P), (X2, P2)):
        out.append((_res(w.A.pdf(X_)), _res(w.A.distributions[0].cdf(X_[:, 0])), _res(w.A.distributions[0].icdf(P_)),
                    _res(w.A.distributions[1].pdf(X_[:, 1], given=X_[:, 0])), _res(w.A.distributions[1].icdf(P_, given=X_[:3, 0])),
                    _res(IFORMContour(w.A, float(P_[0]) / 10, n_points=12).coordinates),
                    _res(HighestDensityContour(w.A, float(P_[1]) / 3, limits=[(0, 8), (0, 10)], deltas=[0.5, 0.5]).coordinates)))
    # sample-based contours with two different samples of the same size
    S2 = w.S[::-1] * 1.07
    for S_ in (w.S, S2):
        np.random.seed(5)
        out.append((_res(DirectSamplingContour(w.A, 0.05, deg_step=30, sample=S_).coordinates),
                    _res(AndContour(w.A, 0.1, deg_step=30, sample=S_, allowed_error=0.2).coordinates)))
    fresh, _ = zoo.build_model(["WeibullDistribution", "LogNormalDistribution"], [None, 0], "A")
    np.random.seed(5)
    ref2 = (_res(DirectSamplingContour(fresh, 0.05, deg_step=30, sample=S2).coordinates),
            _res(AndContour(fresh, 0.1, deg_step=30, sample=S2, allowed_error=0.2).coordinates))
    if out[3] != ref2:
        raise AssertionError("sample-based contour of a second sample differs from the one computed with fresh objects")
    ref = (_res(fresh.pdf(X2)), _res(fresh.distributions[0].cdf(X2[:, 0])), _res(fresh.distributions[0].icdf(P2)),
           _res(fresh.distributions[1].pdf(X2[:, 1], given=X2[:, 0])), _res(fresh.distributions[1].icdf(P2, given=X2[:3, 0])),
           _res(IFORMContour(fresh, float(P2[0]) / 10, n_points=12).coordinates),
           _res(HighestDensityContour(fresh, float(P2[1]) / 3, limits=[(0, 8), (0, 10)], deltas=[0.5, 0.5]).coordinates))
    if out[1] != ref:
        raise AssertionError("second evaluation on the same objects differs from the evaluation on fresh objects: "
                             + str([i for i, (a, b) in enumerate(zip(out[1], ref)) if a != b]))
    return tuple(out)


def ev_B2_eval(w):
    # evaluating the second getter result (unfitted or fitted) must not change anything either
    try:
        return _res(w.B2.pdf(w.D[:5]))
    except Exception as e:
        return "exc:" + type(e).__name__


EVENTS = {
    "joint_pdf": ("eval", lambda w: _res(w.A.pdf(w.X))),
    "joint_pdf_list": ("eval", lambda w: _res(w.A.pdf(w.X.tolist()))),
    "joint_cdf": ("eval", lambda w: _res(w.A.cdf(w.X[0]))),
    "dist_methods": ("eval", ev_dist_methods),
    "readonly_inputs": ("eval", ev_readonly_inputs),
    "all_families_writable": ("eval", ev_all_families_writable),
    "two_point_sets": ("eval", ev_two_point_sets),
    "marginals": ("eval", lambda w: (_res(w.A.marginal_pdf(w.X[:1, 1], 1)), _res(w.A.marginal_cdf(w.X[:1, 1], 1)),
                                     _res(w.A.marginal_icdf(w.P, 0)))),
    "draw_sample": ("eval", lambda w: _res(w.A.draw_sample(50, random_state=9))),
    "iform": ("eval", _contour(IFORMContour, n_points=20)),
    "isorm": ("eval", _contour(ISORMContour, n_points=20)),
    "hdc": ("eval", lambda w: _res(HighestDensityContour(w.A, 0.2, limits=w.limits, deltas=w.deltas).coordinates)),
    "hdc_reversed_limits": ("eval", lambda w: (_res(HighestDensityContour(w.A, 0.2, limits=w.limits_rev, deltas=w.deltas).coordinates),
                                               _res(HighestDensityContour(w.A, 0.2, limits=w.limits_arr, deltas=0.5).coordinates),
                                               _res(HighestDensityContour(w.A, 0.2, limits=w.limits_arr, deltas=w.deltas_arr).coordinates))),
    "direct_sampling": ("eval", ev_ds),
    "and_contour": ("eval", ev_and),
    "or_contour": ("eval", ev_or),
    "design_conditions": ("eval", ev_design),
    "plots": ("eval", ev_plots),
    "save": ("eval", ev_save),
    "B2_eval": ("eval", ev_B2_eval),
    "pdf_3d": ("eval3", lambda w: (_res(w.A3.pdf(w.X3)), _res(IFORMContour(w.A3, 0.1, n_points=6).coordinates),
                                   _res(w.A3.draw_sample(20, random_state=3)))),
    "transformed_model_queries": ("eval", lambda w: (_res(w.TM.marginal_icdf(np.array([0.5, 0.9]), 1)),
                                                     _res(IFORMContour(w.TM, 0.05, n_points=4).coordinates),
                                                     _res(w.TM.pdf(w.X[:2])),
                                                     _res(w.TM0.marginal_icdf(np.array([0.5, 0.9]), 1)))),
    "getter_again": ("getter", None),
    "fit_B": ("fitB", None),
    "fit_B2": ("fitB2", None),
    "fit_wrapper": ("fitW", None),
}


def apply_event(w, name):
    kind, fn = EVENTS[name]
    with warnings.catch_warnings():
        warnings.simplefilter("ignore")
        if kind in ("eval", "eval3"):
            return fn(w)
        if kind == "getter":
            r = w.getter()
            return "getter:" + history.digest(r[0])
        if kind == "fitB":
            fd = w.Bdesc[1]
            w.B.fit(w.D, fd)
            return "fitted"
        if kind == "fitB2":
            w.B2.fit(w.D, w.B2desc[1])
            return "fitted"
        if kind == "fitW":
            rs = np.random.RandomState(4)
            groups = [0.2 + (1.0 + 0.3 * g) * rs.weibull(1.4, 200) for g in (1.0, 2.0, 3.0)]
            w.W.fit(groups, [1.0, 2.0, 3.0], [(0.5, 1.5), (1.5, 2.5), (2.5, 3.5)], "mle")
            return "fitted"
    raise ValueError(kind)


def run_case(case):
    getter, three_d, names = case["getter"], case["three_d"], case["events"]
    viol = []
    first_result = {}
    stats = {"eval_transitions": 0, "fit_transitions": 0}

    def bad(clause, detail, hist):
        sig = {"check": "purity", "clause": clause, "event": detail.get("event")}
        if not any(v["sig"] == sig for v in viol):
            viol.append({"sig": sig, "detail": dict(detail, history=hist), "case": dict(case, replay_history=hist)})

    cache = {}
    copy_ok = {"checked": False, "ok": True}

    def build_fresh(hist):
        w = World(getter, three_d)
        for name in hist:
            apply_event(w, name)
        return w

    def build(hist):
        """Fresh objects in the state reached by `hist`. Replaying every history from scratch is dominated by the
        fits, so a world is built once per history and deep-copied; the copy is validated (identical exact digest,
        no mutable object shared with the original) the first time, otherwise every world is rebuilt from scratch."""
        import copy
        key = tuple(hist)
        if not copy_ok["ok"]:
            return build_fresh(hist)
        if key not in cache:
            if hist and tuple(hist[:-1]) in cache:
                w = copy.deepcopy(cache[tuple(hist[:-1])])
                apply_event(w, hist[-1])
            else:
                w = build_fresh(hist)
            cache[key] = w
        w2 = copy.deepcopy(cache[key])
        if not copy_ok["checked"] or (hist and not copy_ok.get("checked_fitted")):
            a, b = cache[key].snapshot_parts(), w2.snapshot_parts()
            ids1 = history.reachable_mutable_ids(tuple(getattr(cache[key], k) for k in ("A", "A3", "B", "B2", "W", "T", "X", "S", "D", "Bdesc", "B2desc")))
            ids2 = history.reachable_mutable_ids(tuple(getattr(w2, k) for k in ("A", "A3", "B", "B2", "W", "T", "X", "S", "D", "Bdesc", "B2desc")))
            if a != b or (set(ids1) & set(ids2)):
                copy_ok["ok"] = False
                return build_fresh(hist)
            copy_ok["checked"] = True
            if hist:
                copy_ok["checked_fitted"] = True
        return w2

    def enabled(hist, st):
        return names

    def canon(w):
        return tuple(sorted(w.snapshot_parts().items()))

    def check(hist, ev, prev, st):
        # `st` was built by replaying hist+[ev] on fresh objects. Re-run the event on a world in state `prev` to observe it.
        w = build(hist)
        before = w.snapshot_parts()
        kind = EVENTS[ev][0]
        try:
            r1 = apply_event(w, ev)
        except Exception as e:
            bad("exception", {"event": ev, "type": type(e).__name__, "msg": str(e)[:160]}, hist + [ev])
            return []
        after = w.snapshot_parts()
        changed = sorted(k for k in before if before[k] != after[k])
        allowed = {"eval": set(), "eval3": set(), "getter": set(), "fitB": {"B", "Bdesc"}, "fitB2": {"B2", "B2desc"},
                   "fitW": {"W"}}[kind]
        bad_changes = [c for c in changed if c not in allowed]
        if bad_changes:
            bad("state_changed", {"event": ev, "changed": bad_changes}, hist + [ev])
        if kind in ("eval", "eval3", "getter"):
            stats["eval_transitions"] += 1
            try:
                r2 = apply_event(w, ev)
            except Exception as e:
                bad("exception_on_repetition", {"event": ev, "type": type(e).__name__, "msg": str(e)[:160]}, hist + [ev])
                return []
            if r1 != r2:
                bad("not_repeatable", {"event": ev}, hist + [ev])
            key = (canon_key(before), ev)
            if key in first_result and first_result[key] != r1:
                bad("result_depends_on_history", {"event": ev}, hist + [ev])
            first_result.setdefault(key, r1)
        else:
            stats["fit_transitions"] += 1
            # differential oracle: what a fit makes of its own target must not depend on what happened to OTHER objects before
            # (state leaking through class-level or module-level containers is invisible in the objects' own attributes)
            fkey = (ev, tuple((k_, before[k_]) for k_ in sorted(allowed)))
            fval = tuple((k_, after[k_]) for k_ in sorted(allowed))
            if fkey in first_fit and first_fit[fkey][0] != fval:
                bad("fit_result_depends_on_history", {"event": ev, "history": hist, "other_history": first_fit[fkey][1]}, hist + [ev])
            first_fit.setdefault(fkey, (fval, hist))
            if kind == "fitW" and dict(w.T.parameters) != w.Tparams0:
                bad("template_parameters_changed", {"event": ev, "template": dict(w.T.parameters)}, hist + [ev])
        return []

    first_fit = {}

    def canon_key(parts):
        return tuple(sorted(parts.items()))

    # aliasing between the results of two getter calls
    w0 = World(getter, three_d)
    ids1 = history.reachable_mutable_ids(w0.Bdesc)
    ids2 = history.reachable_mutable_ids(w0.B2desc)
    shared = set(ids1) & set(ids2)
    if shared:
        bad("getter_results_share_mutable_objects", {"event": "getter", "shared": sorted({ids1[i] for i in shared})[:6], "count": len(shared)}, [])
    if case.get("replay_history"):
        h = case["replay_history"]
        check(h[:-1], h[-1], None, None)
        return {"viol": viol, "n": 1, "nontrivial": 1}
    heavy = set(case.get("heavy_events", []))
    seen = {build([]).state_key(): []}
    frontier = [[]]
    transitions = 0
    closed = True
    samples = []
    while frontier:
        hist = frontier.pop(0)
        for ev in names:
            if ev in heavy and case.get("heavy_only_from_initial") and hist:
                continue
            if case.get("check_only") and ev not in case["check_only"] and EVENTS[ev][0] in ("eval", "eval3", "getter"):
                continue  # this work unit checks a share of the evaluation events (all fit events expand the search)
            transitions += 1
            check(hist, ev, None, None)
            if EVENTS[ev][0] in ("eval", "eval3", "getter") and not any(v["detail"].get("event") == ev for v in viol):
                continue  # a pure event (verified above on exact digests) is a self-loop
            try:
                k = build(hist + [ev]).state_key()
            except Exception:
                continue
            if k not in seen:
                if len(hist) + 1 > case["depth"]:
                    closed = False
                    continue
                seen[k] = hist + [ev]
                frontier.append(hist + [ev])
                if len(samples) < 5:
                    samples.append(hist + [ev])
    n_cross = 0
    if case.get("cross_check"):
        # all sequences up to the given length WITHOUT de-duplication, restricted to a sub-alphabet
        sub = case["cross_check"]["events"]
        for L in range(1, case["cross_check"]["length"] + 1):
            for seq in itertools.product(sub, repeat=L):
                check(list(seq[:-1]), seq[-1], None, None)
                n_cross += 1
    res = {"states": len(seen), "transitions": transitions, "traces": transitions, "closed": closed, "samples": samples}
    return {"viol": viol[:4], "n": res["traces"] + n_cross, "nontrivial": res["transitions"],
            "outcomes": [f"{getter}:states={res['states']}:closed={res['closed']}"],
            "mc": {"states": res["states"] if case.get("share", 0) == 0 else 0, "transitions": res["transitions"],
                   "traces": res["traces"] + n_cross},
            "count": dict(stats, cross_check_sequences=n_cross, deepcopy_validated=int(copy_ok["ok"]),
                          **{"closed_" + getter: int(res["closed"]), "states_" + getter: res["states"]}),
            "closed": res["closed"], "samples": res["samples"]}


def main(ctx):
    ctx.rule = ("explicit-state BFS per predefined getter (6): state = history of events, canonical form = deep digest of every "
                "attribute of the models A (2-D), A3 (3-D), both getter results B/B' (descriptions and models), the template T and "
                "its conditional wrapper, and the caller-owned arrays X, P, S, D; alphabet = 25 events (pdf/cdf/icdf of distributions "
                "and joint model with array, list and read-only inputs, marginals, seeded sampling, IFORM, ISORM, HDC, direct "
                "sampling, AND, OR, design conditions, three plot functions, save, 3-D evaluation, getter again, fit(B), fit(B'), "
                "fit(wrapper)); search until the canonical state set closes. Every transition re-executes the event on fresh "
                "objects twice. Non-trivial = transitions.")
    ctx.assumptions = ["deep digest covers __dict__, lists, dicts, arrays (bytes), functions (code hash, defaults, closure contents), partials",
                       "random evaluation events are made deterministic by explicit seeds / seeding the global RNG"]
    q = ctx.quick
    cases = []
    all_events = [e for e in EVENTS]
    heavy = ["hdc", "hdc_reversed_limits", "plots", "and_contour", "or_contour", "joint_cdf", "marginals", "pdf_3d"]
    for i, g in enumerate(GETTERS):
        three_d = True
        ev = list(all_events)
        c = {"getter": g, "three_d": three_d, "events": ev, "depth": 6, "heavy_events": heavy,
             "heavy_only_from_initial": bool(q)}
        if q and i not in (0, 3, 4):
            # quick: three getters get the full alphabet, the others the fit events and the cheap evaluations
            c["events"] = [e for e in ev if e not in heavy]
        if not q and i in (0, 2):
            c["cross_check"] = {"events": ["joint_pdf", "iform", "fit_B", "fit_B2", "B2_eval", "draw_sample"], "length": 3}
        evs = [e for e in c["events"] if EVENTS[e][0] in ("eval", "eval3", "getter")]
        nshare = 2
        for k in range(nshare):
            cases.append(dict(c, check_only=evs[k::nshare], share=k, cross_check=c.get("cross_check") if k == 0 else None))
    for c in cases:
        ctx.axis("getter", c["getter"])
    res = ctx.pmap(cases, label="purity")
    closed = all(r.get("closed", True) for r in res if r)
    if not closed:
        ctx.cap("state space did not close within the depth bound")
    for r in res:
        if r and r.get("samples"):
            ctx.sample({"histories": r["samples"][:3]}, force=True)
    ctx.extra["search_closed"] = closed
