"""C16 - transformed models are exact push-forwards; Monte-Carlo conditionals match them (lattice exploration)."""

import itertools
import warnings

import mpmath as mp
import numpy as np
import scipy.special as sp

from virocon import (GlobalHierarchicalModel, IFORMContour, TransformedModel, get_Nonzero_EW_Hs_S, get_Windmeier_EW_Hs_S,
                     variable_transform as vt)
from virocon.jointmodels import CouldNotSampleError

from .. import refquad, stats
from ..core import case_seed

PROPERTY = "C16"
LEVEL = "exploration"
EPS = 2.220446049250313e-16
F = vt.factor

MODELS = {
    "windmeier": (get_Windmeier_EW_Hs_S, dict(alpha=0.3558266426790537, beta=0.7722215906528377, delta=5.372851562500009),
                  {"alpha": dict(a=0.0424514373112269, b=0.9882603667617216), "beta": dict(a=1.3850625877279985, b=0.8558017190459911)}),
    "nonzero": (get_Nonzero_EW_Hs_S, dict(alpha=0.3558266426790537, beta=0.7722215906528377, delta=5.372851562500009),
                {"alpha": dict(a=0.03969066798489745, b=0.7002946894910628), "beta": dict(a=1.3850625877279985, b=0.8558017190459911)}),
    "wide": (get_Nonzero_EW_Hs_S, dict(alpha=0.9, beta=1.1, delta=2.5),
             {"alpha": dict(a=0.05, b=0.4), "beta": dict(a=1.6, b=0.5)}),
}


def build(name, pf=0.1, rs=None):
    getter, marg, deps = MODELS[name]
    dd, fd, sem, tr = getter()
    m = GlobalHierarchicalModel(dd)
    for k, v in marg.items():
        setattr(m.distributions[0], k, v)
    for par, coef in deps.items():
        m.distributions[1].conditional_parameters[par].parameters = dict(coef)
    t = TransformedModel(m, tr["transform"], tr["inverse"], tr["jacobian"], precision_factor=pf, random_state=rs)
    return m, t, tr


# ---------------------------------------------------------------------------- exact pieces
def s_cdf(m, s, hs):
    return np.asarray(m.distributions[1].cdf(s, given=hs), dtype=float)


def tz_given_hs_cdf(m, t, hs):
    """P(Tz <= t | Hs = hs) = 1 - F_S(f hs / t^2 | hs)."""
    t = np.asarray(t, dtype=float)
    with np.errstate(all="ignore"):
        return 1.0 - s_cdf(m, F * hs / (t * t), hs)


def pdf_T_ref(m, X):
    X = np.atleast_2d(np.asarray(X, dtype=float))
    hs, tz = X[:, 0], X[:, 1]
    s = F * hs / (tz * tz)
    return np.asarray(m.pdf(np.c_[hs, s]), dtype=float) * (2 * F * hs / tz ** 3)


def hs_given_tz_cdf(m, hs_vals, tz):
    """By 1-D Gauss-Legendre quadrature of the reference push-forward density along hs."""
    hs_hi = float(m.distributions[0].icdf(1 - 1e-12))
    edges = np.unique(np.concatenate([np.geomspace(1e-6, hs_hi, 120), [0.0]]))
    f = lambda P: pdf_T_ref(m, np.c_[P[:, 0], np.full(len(P), tz)])
    tot = refquad.integrate(f, [edges], k=8)[1]
    out = []
    for h in np.atleast_1d(hs_vals):
        e = refquad.clip_edges(edges, 0.0, float(h))
        out.append(refquad.integrate(f, [e], k=8)[1] / tot)
    return np.array(out)


# ---------------------------------------------------------------------------- (a) transformations
def mp_maps():
    f = mp.mpf(F)

    def hs_tz_to_s_d(hs, tz):
        return f * hs / (tz * tz), mp.sqrt(hs * hs + tz * tz / 2)

    def s_d_to_hs_tz(s, d):
        a = mp.sqrt(16 * d * d * s * s + f * f)
        return (a - f) / (4 * s), mp.sqrt(f * (a - f)) / (2 * s)

    def hs_tz_to_hs_s(hs, tz):
        return hs, f * hs / (tz * tz)

    def hs_s_to_hs_tz(hs, s):
        return hs, mp.sqrt(f * hs / s)

    def hs_tz_to_s_tz(hs, tz):
        return f * hs / (tz * tz), tz

    def s_tz_to_hs_tz(s, tz):
        return s * tz * tz / f, tz

    return {"s_d": (vt.hs_tz_to_s_d, vt.s_d_to_hs_tz, hs_tz_to_s_d, s_d_to_hs_tz),
            "hs_s": (vt.hs_tz_to_hs_s, vt.hs_s_to_hs_tz, hs_tz_to_hs_s, hs_s_to_hs_tz),
            "s_tz": (vt.hs_tz_to_s_tz, vt.s_tz_to_hs_tz, hs_tz_to_s_tz, s_tz_to_hs_tz)}


def run_transforms(case):
    mp.mp.dps = 40
    viol = []
    n = 0
    grid = np.logspace(-3, 2, case["grid"])
    f = mp.mpf(F)

    def bad(clause, detail, pair):
        sig = {"check": "transform", "clause": clause, "pair": pair}
        if not any(v["sig"] == sig for v in viol):
            viol.append({"sig": sig, "detail": detail, "case": case})

    for pair, (T, Ti, Tm, Tim) in mp_maps().items():
        for a, b in itertools.product(grid, grid):
            n += 1
            y = T(a, b)
            ym = Tm(mp.mpf(a), mp.mpf(b))
            for k in range(2):
                if abs(mp.mpf(float(y[k])) - ym[k]) > 8 * EPS * abs(ym[k]):
                    bad("forward_formula", {"x": [a, b], "got": [float(v) for v in y], "exact": [float(v) for v in ym]}, pair)
            x2 = Ti(float(y[0]), float(y[1]))
            # conditioning of the inverse (subtraction sqrt(16 d^2 s^2 + f^2) - f in s_d_to_hs_tz)
            if pair == "s_d":
                s_, d_ = mp.mpf(float(y[0])), mp.mpf(float(y[1]))
                aa = mp.sqrt(16 * d_ * d_ * s_ * s_ + f * f)
                kappa = float((aa + f) / (aa - f))
            else:
                kappa = 1.0
            xe = Tim(mp.mpf(float(y[0])), mp.mpf(float(y[1])))
            for k, orig in enumerate((a, b)):
                tol = 64 * EPS * kappa
                if abs(float(x2[k]) - float(xe[k])) > tol * abs(float(xe[k])):
                    bad("inverse_formula", {"y": [float(v) for v in y], "got": [float(v) for v in x2], "exact": [float(v) for v in xe],
                                            "kappa": kappa}, pair)
                if abs(float(x2[k]) - orig) > (tol + 16 * EPS) * abs(orig):
                    bad("inverse_of_transform", {"x": [a, b], "roundtrip": [float(v) for v in x2], "kappa": kappa}, pair)
    # array arguments (1-D, 2-D, integer-typed) give element by element what scalar arguments give
    for pair, (T, Ti, Tm, Tim) in mp_maps().items():
        A, B = np.meshgrid(grid, grid, indexing="ij")
        for nm, fun in (("forward", T), ("inverse", Ti)):
            sc = np.array([[[float(v) for v in fun(float(a), float(b))] for b in grid] for a in grid])      # (g, g, 2)
            for kind, a_, b_ in (("2d", A, B), ("1d", A.ravel(), B.ravel())):
                n += 1
                try:
                    y0, y1 = fun(a_, b_)
                    got = np.stack([np.asarray(y0, dtype=float).reshape(A.shape), np.asarray(y1, dtype=float).reshape(A.shape)], axis=-1)
                except Exception as e:
                    bad("array_arguments", {"direction": nm, "kind": kind, "type": type(e).__name__, "msg": str(e)[:120]}, pair)
                    continue
                if not np.allclose(got, sc, rtol=4 * EPS, atol=0, equal_nan=True):
                    bad("array_arguments", {"direction": nm, "kind": kind, "max_rel_difference": float(np.nanmax(np.abs(got - sc) / np.abs(sc)))}, pair)
        ig = np.arange(1, 8)
        IA, IB = np.meshgrid(ig, ig, indexing="ij")
        for nm, fun in (("forward", T), ("inverse", Ti)):
            n += 1
            try:
                yi = fun(IA, IB)
                yf = fun(IA.astype(float), IB.astype(float))
                if not all(np.allclose(np.asarray(u, dtype=float), np.asarray(v, dtype=float), rtol=4 * EPS, atol=0, equal_nan=True) for u, v in zip(yi, yf)):
                    bad("integer_arguments", {"direction": nm}, pair)
            except Exception as e:
                bad("integer_arguments", {"direction": nm, "type": type(e).__name__, "msg": str(e)[:120]}, pair)
    # supplied Jacobians of the two predefined models = |det d transform / dx| (analytic and by central differences)
    for name in ("windmeier", "nonzero"):
        _, _, tr = build(name)
        g = np.logspace(-1.5, 1.5, 9)
        P = np.array(list(itertools.product(g, g)))
        J = np.asarray(tr["jacobian"](P), dtype=float)
        Ja = 2 * F * P[:, 0] / P[:, 1] ** 3
        n += len(P)
        if not np.allclose(J, Ja, rtol=1e-13, atol=0):
            bad("jacobian_formula", {"model": name, "got": J[:3], "analytic": Ja[:3]}, name)
        h = 1e-6
        for p, j in zip(P, J):
            D = np.empty((2, 2))
            for c in range(2):
                dp = np.zeros(2)
                dp[c] = h * p[c]
                D[:, c] = (np.asarray(tr["transform"](np.atleast_2d(p + dp)))[0] - np.asarray(tr["transform"](np.atleast_2d(p - dp)))[0]) / (2 * dp[c])
            det = abs(np.linalg.det(D))
            if not abs(det - j) <= 1e-6 * abs(j):
                bad("jacobian_vs_finite_difference", {"model": name, "x": p, "jacobian": j, "det_fd": det}, name)
                break
        # inverse(transform(x)) of the model's own pair
        back = np.asarray(tr["inverse"](np.asarray(tr["transform"](P))), dtype=float)
        if not np.allclose(back, P, rtol=1e-13, atol=0):
            bad("inverse_of_transform", {"model": name}, name)
    return {"viol": viol, "n": n, "nontrivial": n, "outcomes": [f"transforms:{len(viol)}"]}


# ---------------------------------------------------------------------------- (b) push-forward density
def quad_edges(m, t):
    np.random.seed(4)
    S = t.draw_sample(200000) if False else np.asarray(t.inverse(m.draw_sample(200000, random_state=4)), dtype=float)
    return S, [refquad.panel_edges(S[:, d], 0.0, n_bulk=28, upper_factor=6.0) for d in range(2)]


def run_pushforward(case):
    name = case["model"]
    m, t, tr = build(name)
    viol = []
    n = 0
    count = {}

    def bad(clause, detail):
        sig = {"check": "pushforward", "clause": clause}
        if not any(v["sig"] == sig for v in viol):
            viol.append({"sig": sig, "detail": detail, "case": case})

    S, edges = quad_edges(m, t)
    qs = [0.02, 0.2, 0.5, 0.8, 0.98, 0.9999]
    P = np.array(list(itertools.product(np.quantile(S[:, 0], qs), np.quantile(S[:, 1], qs))))
    got = np.asarray(t.pdf(P), dtype=float)
    ref = pdf_T_ref(m, P)
    n += len(P)
    if not np.allclose(got, ref, rtol=1e-12, atol=1e-300):
        k = int(np.argmax(np.abs(got - ref) / (np.abs(ref) + 1e-300)))
        bad("pdf_not_pushforward", {"x": P[k], "pdf": got[k], "base_pdf_times_jacobian": ref[k]})
    a, b = refquad.integrate(t.pdf, edges, k=6)
    n += 1
    if abs(a - b) > 1e-6:
        count["oracle_inconclusive"] = count.get("oracle_inconclusive", 0) + 1
    elif abs(b - 1) > 1e-5:
        bad("pdf_does_not_integrate_to_one", {"integral": b})
    # samples are the inverse-transformed samples of the base model
    np.random.seed(77)
    s1 = np.asarray(t.draw_sample(500), dtype=float)
    np.random.seed(77)
    s2 = np.asarray(t.inverse(m.draw_sample(500)), dtype=float)
    n += 1
    if s1.shape != (500, 2) or not np.array_equal(s1, s2):
        bad("sample_not_inverse_transformed_base_sample", {"shape": list(s1.shape)})
    # cdf = integral of the push-forward density; and agrees with the empirical cdf of its own sample
    np.random.seed(case_seed(case, case.get("run_seed", 0)))
    big = t.sample
    n += 1
    if big.shape != (1000000, 2):
        bad("sample_property_shape", {"shape": list(big.shape)})
    for q in case["cdf_qs"]:
        x = np.array([np.quantile(S[:, 0], q[0]), np.quantile(S[:, 1], q[1])])
        e2 = [refquad.clip_edges(edges[d], 0.0, x[d]) for d in range(2)]
        a, b = refquad.integrate(pdf_T_ref.__get__(m) if False else (lambda X: pdf_T_ref(m, X)), e2, k=6)
        c = float(np.asarray(t.cdf(x)).reshape(-1)[0])
        ec = float(np.asarray(t.empirical_cdf(x)).reshape(-1)[0])
        n += 2
        if abs(a - b) > 1e-6:
            count["oracle_inconclusive"] = count.get("oracle_inconclusive", 0) + 1
            continue
        if abs(c - b) > 1e-5:
            bad("cdf_not_integral_of_pdf", {"x": x, "cdf": c, "cubature": b})
        lo, hi = stats.binom_band(len(big), min(max(b, 0.0), 1.0))
        k = ec * len(big)
        if not (lo <= k <= hi):
            bad("empirical_cdf_outside_band", {"x": x, "empirical": ec, "exact": b, "band": [lo / len(big), hi / len(big)]})
        ec2 = float(np.mean(np.all(big <= x, axis=1)))
        if ec2 != ec:
            bad("empirical_cdf_value", {"x": x, "empirical_cdf": ec, "recomputed": ec2})
        # explicitly SEEDED samples (int seed, numpy integer, Generator) follow the push-forward as well
        for kind, rs_ in (("int", 7), ("npint", np.int64(11)), ("generator", np.random.default_rng(13))):
            Sd = np.asarray(t.draw_sample(200000, random_state=rs_), dtype=float)
            n += 1
            lo, hi = stats.binom_band(len(Sd), min(max(b, 0.0), 1.0))
            kk_ = float(np.sum(np.all(Sd <= x, axis=1)))
            if Sd.shape != (200000, 2) or not (lo <= kk_ <= hi):
                bad("seeded_sample_outside_band", {"x": x, "random_state": kind, "empirical": kk_ / len(Sd), "exact": b,
                                                   "band": [lo / len(Sd), hi / len(Sd)]})
    # explicitly seeded samples by their Rosenblatt transform under the exact push-forward (no cubature involved):
    # u1 = F_Hs(hs), u2 = F(tz | hs) must be uniform (DKW) and independent (3x3 Hoeffding)
    for kind, rs_ in (("int", 7), ("npint", np.int64(11)), ("generator", np.random.default_rng(13))):
        Sd = np.asarray(t.draw_sample(100000, random_state=rs_), dtype=float)
        n += 1
        if Sd.shape != (100000, 2) or not np.all(np.isfinite(Sd)):
            bad("seeded_sample_shape", {"random_state": kind, "shape": list(Sd.shape)})
            continue
        u1 = np.clip(np.asarray(m.distributions[0].cdf(Sd[:, 0]), dtype=float), 0, 1)
        u2 = np.clip(tz_given_hs_cdf(m, Sd[:, 1], Sd[:, 0]), 0, 1)
        eps = stats.dkw_eps(len(Sd))
        d1, d2 = stats.sup_distance(np.sort(u1)), stats.sup_distance(np.sort(u2))
        if d1 > eps or d2 > eps:
            bad("seeded_sample_not_push_forward", {"random_state": kind, "sup_distance": [d1, d2], "dkw_eps": eps})
        worst, e9 = stats.independence_3x3(np.c_[u1, u2])
        if worst > e9:
            bad("seeded_sample_components_dependent", {"random_state": kind, "worst_cell_deviation": worst, "hoeffding_eps": e9})
    return {"viol": viol, "n": n, "nontrivial": n, "outcomes": [f"push:{len(viol)}"], "count": count}


# ---------------------------------------------------------------------------- (c) Monte-Carlo conditionals
def run_conditional(case):
    name, dim, q, n_s, seed = case["model"], case["dim"], case["q"], case["n"], case["seed"]
    m, t, tr = build(name)
    viol = []
    count = {}

    def bad(clause, detail, **extra):
        # witness for the known finding: the sampler works with an ABSOLUTE joint-density threshold (1e-7); for
        # conditioning values where the joint density along the conditioning line peaks below 1e-3 (threshold/peak > 1e-4) it truncates or refuses
        line = np.geomspace(1e-3, 100, 4000)
        pts = np.c_[line, np.full_like(line, g)] if dim == 0 else np.c_[np.full_like(line, g), line]
        dmax = float(np.max(pdf_T_ref(m, pts)))
        detail = dict(detail, peak_joint_density_on_conditioning_line=dmax)
        sig = {"check": "mc_conditional", "clause": clause, "dim": dim, "peak_joint_density_below_1e-3": bool(dmax < 1e-3),
               "peak_joint_density_below_1e-4": bool(dmax < 1e-4), "peak_joint_density_below_2e-5": bool(dmax < 2e-5)}
        if "sample_max" in detail:
            # second witness: does the sampled range end where the joint density still exceeds the sampler's own threshold
            # (range cut inside the support = the repaired x_max defect) or below it (absolute-threshold tail loss)?
            sm = detail["sample_max"]
            pt = np.array([[sm, g]]) if dim == 0 else np.array([[g, sm]])
            dsm = float(pdf_T_ref(m, pt)[0])
            detail["joint_density_at_sample_max"] = dsm
            sig["range_ends_above_sampler_threshold"] = bool(dsm > 1.5e-7)
        if state.get("smp") is not None and len(state["smp"]) >= 1000 and clause in ("conditional_sample_distribution", "upper_tail_truncated"):
            # third witness: is the sample the exact conditional merely TRUNCATED to the sampled range (pure tail loss), or is
            # its shape wrong inside the range as well?
            xs_ = np.sort(state["smp"])
            pe = np.clip(np.asarray(state["exact"](xs_), dtype=float), 0, 1)
            span = pe[-1] - pe[0]
            if span > 0:
                dtr = stats.sup_distance((pe - pe[0]) / span)
                detail["sup_distance_to_exact_truncated_to_sampled_range"] = dtr
                sig["shape_exact_within_sampled_range"] = bool(dtr <= stats.dkw_eps(len(xs_)))
        sig.update(extra)
        if not any(v["sig"] == sig for v in viol):
            viol.append({"sig": sig, "detail": detail, "case": case})

    state = {}
    # conditioning value: marginal quantile of the conditioning variable
    if dim == 1:
        g = float(m.distributions[0].icdf(q))       # Hs value
        if case.get("int_given"):
            g = float(max(1, round(g)))
        exact = lambda x: tz_given_hs_cdf(m, x, g)
    else:
        S = np.asarray(t.inverse(m.draw_sample(400000, random_state=9)), dtype=float)
        g = float(np.quantile(S[:, 1], q))            # Tz value
        if case.get("int_given"):
            g = float(max(1, round(g)))
        exact = lambda x: hs_given_tz_cdf(m, x, g)
    with warnings.catch_warnings(record=True) as wl:
        warnings.simplefilter("always")
        try:
            # the conditioning value as the user may pass it: float list, python int, integer array
            gv = {None: [g], "pyint": int(g), "intarray": np.array([int(g)])}[case.get("int_given")]
            smp = np.asarray(t.conditional_sample(n_s, dim, gv, random_state=seed), dtype=float)
            smp2 = np.asarray(t.conditional_sample(n_s, dim, gv, random_state=seed), dtype=float)
        except ValueError as e:
            bad("exception", {"given": g, "type": "ValueError", "msg": str(e)[:120], "int_given": case.get("int_given")})
            return {"viol": viol, "n": 1, "nontrivial": 1, "outcomes": ["exception"]}
        except CouldNotSampleError:
            # witness: the joint density along the conditioning line never reaches the sampler's threshold 1e-7
            bad("could_not_sample", {"given": g, "quantile_of_given": q})
            return {"viol": viol, "n": 1, "nontrivial": 1, "outcomes": ["could_not_sample"]}
    n = 2
    state.update(smp=smp, exact=exact)
    if len(smp) != n_s:
        bad("sample_size", {"requested": n_s, "got": len(smp), "warnings": [str(w.message)[:80] for w in wl][:2]})
    if not np.array_equal(smp, smp2):
        bad("not_reproducible", {})
    if len(smp) >= 1000:
        p = np.asarray(exact(np.sort(smp)), dtype=float)
        dist = stats.sup_distance(np.clip(p, 0, 1))
        eps = stats.dkw_eps(len(smp))
        if dist > eps:
            bad("conditional_sample_distribution", {"given": g, "quantile_of_given": q, "sup_distance": dist, "dkw_eps": eps,
                                                    "sample_range": [float(smp.min()), float(smp.max())], "sample_max": float(smp.max())})
        else:
            # tails not truncated: the maximum must exceed the exact (1 - c/n)-quantile (and the minimum the c/n-quantile)
            qt = stats.tail_coverage_quantile(len(smp))
            pmax, pmin = float(exact(np.array([smp.max()]))[0]), float(exact(np.array([smp.min()]))[0])
            if pmax < qt:
                bad("upper_tail_truncated", {"given": g, "F_at_sample_max": pmax, "required": qt, "sample_max": float(smp.max())})
            if pmin > 1 - qt:
                bad("lower_tail_truncated", {"given": g, "F_at_sample_min": pmin, "required": 1 - qt})
    # conditional_cdf / conditional_icdf at a few levels
    for pl in case.get("levels", []):
        x_exact = None
        G = np.array([[g]]) if not case.get("int_given") else np.array([[int(g)]])
        xi = np.asarray(t.conditional_icdf(np.array([pl]), dim, G, random_state=seed), dtype=float)[0]
        n += 1
        n_mc = int(min(max((1 / (pl if pl < 0.5 else 1 - pl)) * 100, 100000), 10000000))
        Fx = float(np.clip(exact(np.array([xi]))[0], 0, 1))
        lo, hi = stats.binom_band(n_mc, Fx)
        if not (lo - 2 <= pl * n_mc <= hi + 2):
            bad("conditional_icdf", {"p": pl, "x": xi, "exact_cdf_at_x": Fx, "given": g, "n_mc": n_mc})
        pc = float(np.asarray(t.conditional_cdf(np.array([xi]), dim, G, random_state=seed + 1), dtype=float)[0])
        n += 1
        lo, hi = stats.binom_band(100000, Fx)
        if not (lo <= pc * 100000 <= hi):
            bad("conditional_cdf", {"x": xi, "cdf": pc, "exact": Fx, "given": g})
    return {"viol": viol, "n": n, "nontrivial": n, "outcomes": [f"cond:{len(viol)}"], "count": count}


# ---------------------------------------------------------------------------- (d) IFORM on the transformed model
def run_iform(case):
    name, alpha, npts, pf, rs = case["model"], case["alpha"], case["n_points"], case["pf"], case["rs"]
    m, t, tr = build(name, pf, rs)
    viol = []

    def bad(clause, detail):
        sig = {"check": "iform_transformed", "clause": clause}
        if not any(v["sig"] == sig for v in viol):
            viol.append({"sig": sig, "detail": detail, "case": case})

    with warnings.catch_warnings():
        warnings.simplefilter("ignore")
        np.random.seed(case_seed(case, 1))
        c1 = IFORMContour(t, alpha, n_points=npts)
        np.random.seed(case_seed(case, 2))   # a different global RNG state must not matter when random_state is set
        _, t2, _ = build(name, pf, rs)
        c2 = IFORMContour(t2, alpha, n_points=npts)
        # the SAME seeded instance used again (a second contour, after other seeded queries): same numbers
        q1 = np.asarray(t.marginal_icdf(np.array([0.5, 0.9]), 1), dtype=float)
        c1b = IFORMContour(t, alpha, n_points=npts)
        q2 = np.asarray(t.marginal_icdf(np.array([0.5, 0.9]), 1), dtype=float)
    X1, X2 = np.asarray(c1.coordinates, dtype=float), np.asarray(c2.coordinates, dtype=float)
    X1b = np.asarray(c1b.coordinates, dtype=float)
    if X1b.shape != X1.shape or not np.array_equal(X1, X1b):
        bad("not_reproducible_on_reused_instance", {"what": "second IFORMContour on the same TransformedModel", "random_state": rs,
                                                    "max_abs_difference": float(np.max(np.abs(X1 - X1b))) if X1b.shape == X1.shape else None})
    if not np.array_equal(q1, q2):
        bad("not_reproducible_on_reused_instance", {"what": "marginal_icdf twice on the same TransformedModel", "first": q1, "second": q2,
                                                    "random_state": rs})
    if X1.shape != (npts, 2):
        bad("shape", {"shape": list(X1.shape)})
        return {"viol": viol, "n": 2, "nontrivial": 2}
    if not np.array_equal(X1, X2):
        bad("not_reproducible_with_random_state", {"max_abs_difference": np.max(np.abs(X1 - X2), axis=0), "random_state": rs})
    # agreement with the exact push-forward: probabilities of the returned coordinates
    beta = sp.ndtri(1 - alpha)
    phi = np.linspace(0, 2 * np.pi, npts, endpoint=False)
    p = sp.ndtr(beta * np.c_[np.cos(phi), np.sin(phi)])
    p_small = min(p[:, 0].min(), 1 - p[:, 0].max())
    n0 = max(int((1 / p_small) * 100 * pf), 100000)
    F0 = np.asarray(m.distributions[0].cdf(X1[:, 0]), dtype=float)   # Hs is not transformed: exact marginal
    for k in range(npts):
        lo, hi = stats.binom_band(n0, float(np.clip(F0[k], 0, 1)))
        if not (lo - 2 <= p[k, 0] * n0 <= hi + 2):
            bad("first_coordinate_vs_exact_marginal", {"point": k, "hs": X1[k, 0], "exact_cdf": F0[k], "target_p": p[k, 0], "n_mc": n0})
            break
    for k in range(npts):
        pk = p[k, 1]
        n1 = int(min(max((1 / (pk if pk < 0.5 else 1 - pk)) * 100, 100000), 10000000))
        Fx = float(np.clip(tz_given_hs_cdf(m, np.array([X1[k, 1]]), X1[k, 0])[0], 0, 1))
        lo, hi = stats.binom_band(n1, Fx)
        if not (lo - 2 <= pk * n1 <= hi + 2):
            bad("second_coordinate_vs_exact_conditional", {"point": k, "hs": X1[k, 0], "tz": X1[k, 1], "exact_cdf": Fx, "target_p": pk,
                                                           "n_mc": n1})
            break
    return {"viol": viol, "n": 2, "nontrivial": 2, "outcomes": [f"iform:{len(viol)}"]}


def run_case(case):
    k = case["kind"]
    with warnings.catch_warnings():
        warnings.simplefilter("ignore")
        if k == "transforms":
            return run_transforms(case)
        if k == "pushforward":
            return run_pushforward(case)
        if k == "conditional":
            return run_conditional(case)
        if k == "iform":
            return run_iform(case)
    raise ValueError(k)


def main(ctx):
    ctx.rule = ("(a) the three shipped transform pairs on an 11x11 (21x21 thorough) log grid over (1e-3,1e2)^2 against mpmath, both "
                "predefined Jacobians analytically and by central differences; (b) three Hs-steepness models: pdf on a 6x6 quantile "
                "grid, integral, sample, cdf and empirical cdf at 2 (4) points; (c) conditional_sample/cdf/icdf for dim in {0,1} x "
                "conditioning quantile {.01,.5,.99,1-1e-4,1-1e-6} x n x seed, plus a dense tail sweep of the conditioning quantile 1-10^-k, k=1..6 step 0.25; (d) IFORMContour(t_model) for alpha x n_points x "
                "precision_factor x random_state, each constructed twice under different global RNG states. evaluations = calls.")
    ctx.assumptions = ["exact conditional Tz|Hs in closed form through the steepness distribution; Hs|Tz by Gauss-Legendre quadrature",
                       "DKW / exact-binomial bands at error probability 1e-12; tail coverage: sample max beyond the (1-27.6/n)-quantile",
                       "hard-coded model coefficients (fit of dataset C) so that no data file is needed"]
    q = ctx.quick
    s = ctx.seed
    cases = [{"kind": "transforms", "grid": 11 if q else 21}]
    for name in MODELS:
        cases.append({"kind": "pushforward", "model": name, "cdf_qs": [[0.5, 0.5], [0.9, 0.3]] if q else [[0.5, 0.5], [0.9, 0.3], [0.2, 0.95], [0.99, 0.99]],
                      "run_seed": s})
    for name in (("windmeier", "wide") if q else tuple(MODELS)):
        for dim in (0, 1):
            for qq in (0.01, 0.5, 0.99, 1 - 1e-4, 1 - 1e-6):
                for n_s in ((10000,) if q else (10000, 100000)):
                    for seed in ((0,) if (q and dim == 0) else ((1,) if q else (0, 1, 2))):
                        lv = [0.5, 0.99] if (qq in (0.5, 0.99) and n_s == 10000 and seed in (0, 1)) else []
                        cases.append({"kind": "conditional", "model": name, "dim": dim, "q": qq, "n": n_s, "seed": (seed + s) if seed else 0, "levels": lv})
    # dense sweep of the conditioning value into the tail (exceedance 10^-k, k = 1 .. 6 in steps of 0.25): the sampler's
    # range search proceeds on a geometric grid, so a defect may live in a narrow window of conditioning values only
    for name in (("windmeier",) if q else ("windmeier", "nonzero")):
        for k4 in range(4, 25):
            qq = 1 - 10 ** (-k4 / 4)
            if any(abs(qq - q0) < 1e-12 for q0 in (0.99, 1 - 1e-4, 1 - 1e-6)):
                continue
            cases.append({"kind": "conditional", "model": name, "dim": 1, "q": qq, "n": 10000, "seed": 1 + s, "levels": []})
            if k4 <= 16:
                cases.append({"kind": "conditional", "model": name, "dim": 0, "q": qq, "n": 10000, "seed": 1 + s, "levels": []})
    # integer-typed conditioning values (python int, integer array) at ordinary values
    for name in ("windmeier",) if q else ("windmeier", "nonzero"):
        for dim in (0, 1):
            for ig in ("pyint", "intarray"):
                cases.append({"kind": "conditional", "model": name, "dim": dim, "q": 0.6, "n": 10000, "seed": 3, "levels": [0.5],
                              "int_given": ig})
    if q:
        cfgs = [("windmeier", 1e-2, 4, 0.1, 42), ("nonzero", 1e-2, 4, 0.1, 0)]   # random_state 0 is falsy: part of the alphabet
    else:
        cfgs = [(mn, a, k, pf, rs) for mn in ("windmeier", "nonzero") for a in (1e-2, 1e-4) for k in (4, 8) for pf in (0.1, 0.2)
                for rs in (42, 7)] + [("wide", 1e-2, 4, 1.0, 42), ("windmeier", 1e-2, 4, 0.1, 0), ("nonzero", 1e-4, 8, 0.2, 0)]
    for mn, a, k, pf, rs in cfgs:
        cases.append({"kind": "iform", "model": mn, "alpha": a, "n_points": k, "pf": pf, "rs": (rs + s) if rs else 0})
    for c in cases:
        ctx.axis("kind", c["kind"])
    cases.sort(key=lambda c: {"iform": 0, "pushforward": 1, "conditional": 2, "transforms": 3}[c["kind"]])
    ctx.pmap(cases, label="transformed")
