"""C06 - joint density factorises hierarchically; cdf and marginals are its integrals (lattice exploration)."""

import itertools

import numpy as np

from .. import refquad, stats, zoo
from ..core import case_seed

PROPERTY = "C06"
LEVEL = "exploration"

POS = ["WeibullDistribution", "LogNormalDistribution", "ExponentiatedWeibullDistribution", "GeneralizedGammaDistribution",
       "LogNormalNormFitDistribution"]
QS = [0.05, 0.5, 0.95, 0.9999]


def ref_pdf(fams, cond_on, thetas, X):
    """Explicit product of template densities with theta(g) from the raw shape functions, one row at a time."""
    X = np.atleast_2d(np.asarray(X, dtype=float))
    out = np.empty(len(X))
    for r, row in enumerate(X):
        p = 1.0
        for i, (fam, c) in enumerate(zip(fams, cond_on)):
            th = zoo.MID[fam] if c is None else thetas[i](float(row[c]))
            p *= float(zoo.make(fam, th).pdf(float(row[i])))
        out[r] = p
    return out


def kinks_for(fams):
    return [[zoo.MID[f]["gamma"]] if f == "WeibullDistribution" else [] for f in fams]


def run_case(case):
    fams, cond_on, assign = case["fams"], case["cond_on"], case["assign"]
    n_dim = len(fams)
    viol = []
    count = {}

    def bad(clause, detail, **extra):
        sig = {"check": "joint", "clause": clause, "n_dim": n_dim}
        sig.update(extra)
        if not any(v["sig"] == sig for v in viol):
            viol.append({"sig": sig, "detail": detail, "case": case})

    def inc(k, v=1):
        count[k] = count.get(k, 0) + v

    model, thetas = zoo.build_model(fams, cond_on, assign)
    S = model.draw_sample(200000, random_state=17)
    qpts = [np.quantile(S[:, d], QS) for d in range(n_dim)]
    pts = np.array(list(itertools.product(*qpts)))
    neval = 0
    # ---------------- pdf = product of (conditional) densities, every input form
    rp = ref_pdf(fams, cond_on, thetas, pts)
    wide = np.zeros((len(pts), 2 * n_dim + 1))
    wide[:, 1::2] = pts
    forms = {"ndarray2d": pts, "list_of_lists": pts.tolist(),
             # memory layouts a caller may well produce: column-major copy, a strided view of a wider table, read-only, float32-free
             "fortran_order": np.asfortranarray(pts), "strided_view": wide[:, 1::2], "reversed_view_twice": pts[::-1][::-1]}
    for name, arg in forms.items():
        got = np.asarray(model.pdf(arg), dtype=float)
        neval += 1
        if got.shape != (len(pts),) or not np.allclose(got, rp, rtol=1e-12, atol=0):
            k = int(np.argmax(np.abs(got - rp))) if got.shape == rp.shape else 0
            bad("pdf_not_product", {"form": name, "point": pts[k], "got": got[k] if got.shape == rp.shape else list(got.shape),
                                    "product": rp[k]})
    if np.any(rp < 0):
        bad("pdf_negative", {})
    for k in (0, len(pts) // 2, len(pts) - 2):
        for name, arg in (("list1d", pts[k].tolist()), ("ndarray1d", pts[k].copy()), ("tuple1d", tuple(pts[k].tolist())),
                          ("single_row_2d", pts[k:k + 1].copy())):
            neval += 1
            try:
                got = np.asarray(model.pdf(arg), dtype=float).reshape(-1)
            except Exception as e:
                bad("pdf_exception", {"form": name, "type": type(e).__name__, "msg": str(e)[:120]})
                continue
            if got.shape != (1,) or not np.isclose(got[0], rp[k], rtol=1e-12, atol=0):
                bad("pdf_not_product", {"form": name, "point": pts[k], "got": got, "product": rp[k]})
    # ---------------- integer-valued evaluation points (int lists / int arrays) are points like any other
    ipts = np.array(list(itertools.product(*[[1, 2, 3]] * n_dim)))
    rpi = ref_pdf(fams, cond_on, thetas, ipts.astype(float))
    for name, arg in (("int_ndarray2d", ipts), ("int_list_of_lists", ipts.tolist()), ("int_list1d", ipts[-1].tolist())):
        neval += 1
        got = np.asarray(model.pdf(arg), dtype=float).reshape(-1)
        exp = rpi if name != "int_list1d" else rpi[-1:]
        if got.shape != exp.shape or not np.allclose(got, exp, rtol=1e-12, atol=0):
            bad("pdf_not_product", {"form": name, "point": ipts[-1], "got": got[-1:], "product": exp[-1:]}, integer_input=True)
    for dim in case.get("marginal_dims", [])[-1:]:
        for meth in ("marginal_pdf", "marginal_cdf"):
            gi = np.asarray(getattr(model, meth)(np.array([2]), dim), dtype=float)
            gf = np.asarray(getattr(model, meth)(np.array([2.0]), dim), dtype=float)
            neval += 2
            if not np.allclose(gi, gf, rtol=1e-9, atol=0):
                bad(meth + "_integer_input", {"dim": dim, "x": 2, "int_input": gi, "float_input": gf}, integer_input=True)
    # ---------------- integrates to one (cubature of the implementation's pdf over the positive orthant)
    kinks = kinks_for(fams)
    nb = 24 if n_dim == 2 else 12
    kk = 6 if n_dim == 2 else 4
    edges = [refquad.panel_edges(S[:, d], 0.0, kinks=kinks[d], n_bulk=nb) for d in range(n_dim)]
    if case.get("total", True):
        a, b = refquad.integrate(model.pdf, edges, k=kk)
        neval += 1
        if abs(a - b) > 1e-6:
            inc("oracle_inconclusive")
        elif abs(b - 1) > 2e-6:
            bad("does_not_integrate_to_one", {"integral": b})
    # ---------------- joint cdf = integral over the lower-left orthant
    for x in case.get("cdf_points", []):
        x = np.array([np.quantile(S[:, d], q) for d, q in enumerate(x)])
        e2 = [refquad.clip_edges(edges[d], 0.0, x[d]) for d in range(n_dim)]
        a, b = refquad.integrate(model.pdf, e2, k=kk)
        got = float(np.asarray(model.cdf(x)).reshape(-1)[0])
        neval += 1
        inc("cdf_points")
        if abs(a - b) > 1e-6:
            inc("oracle_inconclusive")
        elif abs(got - b) > 1e-5:
            bad("cdf_not_orthant_integral", {"x": x, "cdf": got, "cubature": b})
        # (n, n_dim) input and list input give the same
    if case.get("cdf_points") and n_dim == 2:     # (a 3-D cdf costs ~5 min per point: input forms and batches on 2-D models)
        xs = np.array([[np.quantile(S[:, d], q) for d, q in enumerate(x)] for x in case["cdf_points"][:2]])
        g1 = np.asarray(model.cdf(xs), dtype=float)
        g2 = np.asarray(model.cdf(xs.tolist()), dtype=float)
        neval += 2
        if g1.shape != (len(xs),) or not np.allclose(g1, g2, rtol=1e-12):
            bad("cdf_input_forms", {"array": g1, "list": g2})
        one = np.array([float(np.asarray(model.cdf(xs[i])).reshape(-1)[0]) for i in range(len(xs))])
        neval += len(xs)
        if g1.shape == one.shape and not np.allclose(g1, one, rtol=1e-9):
            bad("cdf_several_points_vs_single", {"several": g1, "single": one})
        # a batch that also holds rows on / below the edge of the support (calm entries, -999 style fill values): the orthant
        # integral of those rows is 0 (non-negative families), and they must not affect the other rows of the batch
        REAL = ("NormalDistribution", "VonMisesDistribution", "GumbelR")
        edge_rows, edge_dims = [], []
        for d in range(n_dim):
            if fams[d] in REAL:
                continue
            for v in (0.0, -0.7):
                r = xs[0].copy()
                r[d] = v
                edge_rows.append(r)
        if edge_rows:
            mixed = np.vstack([xs[:1], np.array(edge_rows), xs[-1:]])
            gm = np.asarray(model.cdf(mixed), dtype=float)
            neval += 1
            if gm.shape != (len(mixed),) or not np.allclose(gm[1:-1], 0.0, atol=1e-12):
                bad("cdf_rows_outside_support_not_zero", {"rows": mixed, "cdf": gm})
            elif not (np.isclose(gm[0], one[0], rtol=1e-9) and np.isclose(gm[-1], one[-1], rtol=1e-9)):
                bad("cdf_several_points_vs_single", {"several": gm, "single_first_last": [one[0], one[-1]], "rows": mixed,
                                                     "batch_contains_rows_outside_support": True})
    # ---------------- 3-D: marginal pdf of a conditional dimension (the argument re-ordering differs per dimension)
    for dim in case.get("marginal_pdf_dims", []):
        xv = float(np.quantile(S[:, dim], 0.6))
        mp = float(np.asarray(model.marginal_pdf(np.array([xv]), dim), dtype=float)[0])
        neval += 1
        a, b = refquad.integrate(model.pdf, edges, k=kk, fixed={dim: xv})
        if abs(a - b) > 1e-6 * max(1.0, abs(b)):
            inc("oracle_inconclusive")
        elif abs(mp - b) > 1e-5 * max(1.0, abs(b)):
            bad("marginal_pdf_not_integral", {"dim": dim, "x": xv, "marginal_pdf": mp, "cubature": b}, conditional=True)
    # ---------------- marginals
    for dim in case.get("marginal_dims", []):
        xq = np.quantile(S[:, dim], case.get("marginal_qs", [0.1, 0.6, 0.97]))
        mp = np.asarray(model.marginal_pdf(np.array(xq), dim), dtype=float)
        # the implementation's 3-D marginal_cdf (nested nquad over two infinite ranges) takes hours: 2-D only
        mc = None if case.get("no_marginal_cdf") else np.asarray(model.marginal_cdf(np.array(xq), dim), dtype=float)
        neval += 2
        # list input (array_like) gives the same numbers
        mpl = np.asarray(model.marginal_pdf([float(v) for v in xq[:1]], dim), dtype=float)
        neval += 1
        if mpl.shape != (1,) or not np.isclose(mpl[0], mp[0], rtol=1e-9, atol=0):
            bad("marginal_pdf_list_input", {"dim": dim, "list": mpl, "array": mp[:1]})
        for j, xv in enumerate(xq):
            a, b = refquad.integrate(model.pdf, edges, k=kk, fixed={dim: xv})
            if abs(a - b) > 1e-6 * max(1.0, abs(b)):
                inc("oracle_inconclusive")
            elif abs(mp[j] - b) > 1e-5 * max(1.0, abs(b)):
                bad("marginal_pdf_not_integral", {"dim": dim, "x": xv, "marginal_pdf": mp[j], "cubature": b},
                    conditional=cond_on[dim] is not None)
            if mc is None:
                continue
            e2 = [refquad.clip_edges(edges[d], 0.0, xv) if d == dim else edges[d] for d in range(n_dim)]
            a, b = refquad.integrate(model.pdf, e2, k=kk)
            if abs(a - b) > 1e-6:
                inc("oracle_inconclusive")
            elif abs(mc[j] - b) > 1e-5:
                bad("marginal_cdf_not_integral", {"dim": dim, "x": xv, "marginal_cdf": mc[j], "cubature": b},
                    conditional=cond_on[dim] is not None)
        # marginal_icdf: exact for unconditional dims, Monte-Carlo (seeded global RNG) for conditional dims
        ps = np.array([0.1, 0.5, 0.99])
        np.random.seed(case_seed(case, case.get("run_seed", 0)))
        xi = np.asarray(model.marginal_icdf(ps, dim), dtype=float)
        neval += 1
        if cond_on[dim] is None:
            xl = np.asarray(model.marginal_icdf(ps.tolist(), dim), dtype=float)
            if not np.array_equal(xl, xi):
                bad("marginal_icdf_list_input", {"dim": dim, "list": xl, "array": xi})
        if cond_on[dim] is None:
            ex = np.asarray(zoo.make(fams[dim], zoo.MID[fams[dim]]).icdf(ps), dtype=float)
            if not np.allclose(xi, ex, rtol=1e-12):
                bad("marginal_icdf_unconditional", {"dim": dim, "got": xi, "expected": ex})
        else:
            nmc = max(int((1 / min(ps.min(), 1 - ps.max())) * 100), 100000)
            for p, xv in zip(ps, xi):
                e2 = [refquad.clip_edges(edges[d], 0.0, xv) if d == dim else edges[d] for d in range(n_dim)]
                a, b = refquad.integrate(model.pdf, e2, k=kk)
                if abs(a - b) > 1e-6:
                    inc("oracle_inconclusive")
                    continue
                # the returned x is the empirical p-quantile of nmc draws: #(draws <= x) ~ Bin(nmc, F(x)) must bracket p*nmc
                lo, hi = stats.binom_band(nmc, min(max(b, 0.0), 1.0))
                if not (lo - 2 <= p * nmc <= hi + 2):
                    bad("marginal_icdf_monte_carlo", {"dim": dim, "p": p, "x": xv, "exact_marginal_cdf_at_x": b, "n_mc": nmc,
                                                     "binomial_band": [lo, hi]})
    # ---------------- marginal_icdf of SEVERAL conditional dimensions queried one after the other on the same model object
    # (Monte-Carlo path). Oracle: an independent large sample of the model (sampling itself is C07's subject);
    # |F_N(x) - p| <= DKW(N) + DKW(n_mc) + 1/n_mc  at error probability 1e-12 each
    seq = case.get("icdf_sequence", [])
    if seq:
        N = 400000
        big = np.asarray(model.draw_sample(N, random_state=77), dtype=float)
        ps = np.array([0.1, 0.5, 0.9])
        nmc = max(int((1 / min(ps.min(), 1 - ps.max())) * 100), 100000)
        tol = stats.dkw_eps(N) + stats.dkw_eps(nmc) + 1.0 / nmc
        for rnd in (0, 1):          # second round: the same queries again (nothing may have gone stale)
            for dim in seq:
                np.random.seed(case_seed(case, 17 + rnd))
                xi = np.asarray(model.marginal_icdf(ps, dim), dtype=float)
                neval += 1
                Fh = np.array([np.mean(big[:, dim] <= xv) for xv in xi])
                if xi.shape != ps.shape or np.any(np.abs(Fh - ps) > tol):
                    bad("marginal_icdf_sequence", {"dim": dim, "sequence": seq, "round": rnd, "p": ps, "x": xi, "empirical_cdf_of_independent_sample": Fh,
                                                  "tolerance": tol})
    moved = any(c is not None for c in cond_on)
    return {"viol": viol, "n": neval, "nontrivial": neval if moved else 0, "outcomes": [f"{n_dim}d:{len(viol)}"], "count": count}


def main(ctx):
    ctx.rule = ("complete product: 2-D: all pairs of the 5 non-negative families x both structures; 3-D: all 6 structures x 3 "
                "family triples with distinct marginals; x evaluation points = all combinations of the marginal quantiles "
                "{.05,.5,.95,.9999} x input form {list, ndarray, tuple 1-D; list of lists, (n,n_dim) ndarray, single-row 2-D}; "
                "integral to one; joint cdf at quantile points (2-D quick; + six 3-D points thorough); marginal pdf/cdf/icdf for "
                "every dimension (2-D; 3-D marginal_pdf thorough). evaluations = model calls; non-trivial = model has a "
                "conditional dimension.")
    ctx.assumptions = ["reference density = explicit product of template densities with theta(g) from the raw shape functions",
                       "integrals by composite Gauss-Legendre cubature of the implementation's pdf, computed with k and 2k "
                       "nodes per panel; disagreement > 1e-6 is counted as oracle-inconclusive, never as a violation",
                       "model.cdf in 3-D costs ~5 min per point: three points in the thorough tier only; the implementation's 3-D marginal_cdf (~4-10 min per point) is executed in the thorough tier only (every conditional dimension of the structures whose second variable is conditional); 3-D marginal_pdf and the Monte-Carlo marginal_icdf also in quick"]
    q = ctx.quick
    cases = []
    for f0, f1 in itertools.product(POS, POS):
        for cond in ([None, None], [None, 0]):
            i0, i1 = POS.index(f0), POS.index(f1)
            if q:   # quick: the expensive clauses (nquad-based cdf / marginals) on one model per conditional leaf family
                full = cond[1] is not None and i0 == (i1 + 1) % 5
                one = cond[1] is not None and i0 == (i1 + 2) % 5
            else:
                full = cond[1] is not None
                one = False
            cases.append({"fams": [f0, f1], "cond_on": cond, "assign": "A", "run_seed": ctx.seed,
                          "cdf_points": ([[0.5, 0.5], [0.9, 0.3]] if full else ([[0.3, 0.8]] if one else [])),
                          "marginal_dims": ([0, 1] if full else []),
                          # evaluation points deliberately NOT in ascending order (results must come back in the order asked)
                          "marginal_qs": ([0.9, 0.2] if q else [0.6, 0.97, 0.1])})
    triples = [["WeibullDistribution", "LogNormalDistribution", "ExponentiatedWeibullDistribution"],
               ["LogNormalDistribution", "GeneralizedGammaDistribution", "WeibullDistribution"],
               ["ExponentiatedWeibullDistribution", "WeibullDistribution", "LogNormalNormFitDistribution"]]
    for ti, fams in enumerate(triples):
        for si, cond in enumerate(zoo.structures(3)):
            c = {"fams": fams, "cond_on": cond, "assign": "A", "run_seed": ctx.seed}
            if not q and ti == 0:
                c["marginal_dims"] = [d for d in range(3) if cond[d] is not None]
                c["marginal_qs"] = [0.5]
                # the implementation's 3-D marginal_cdf (nested nquad over two infinite ranges) takes ~4-10 min per point:
                # executed for every conditional dimension of the structures whose second variable is conditional
                c["no_marginal_cdf"] = cond[1] is None
                c["cdf_points"] = [[0.5, 0.6, 0.4]] if si in (1, 3, 5) else []
            if q and ti > 0:
                c["total"] = si % 2 == 0
            cd = [d for d in range(3) if cond[d] is not None]
            if ti == 0 and cd:
                c["icdf_sequence"] = cd if si % 2 == 0 else cd[::-1]
            if ti == 0 or not q:
                # every conditional dimension of every structure (quick: first family triple)
                c["marginal_pdf_dims"] = [d for d in range(3) if cond[d] is not None and d not in c.get("marginal_dims", [])]
            cases.append(c)
    for c in cases:
        ctx.axis("n_dim", len(c["fams"]))
        ctx.axis("structure", str(c["cond_on"]))
    cases.sort(key=lambda c: -(len(c["fams"]) * 10 + len(c.get("cdf_points", [])) * (100 if len(c["fams"]) == 3 else 1)))
    ctx.pmap(cases, label="joint")
