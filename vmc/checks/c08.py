"""C08 - a conditional distribution is its template evaluated at the dependence values (lattice exploration)."""

import itertools

import numpy as np

from virocon import DependenceFunction
from virocon.distributions import ConditionalDistribution

from .. import zoo

PROPERTY = "C08"
LEVEL = "exploration"

COEF = {"scale": (1.5, 1.0), "shape": (1.2, 0.8), "loc": (0.3, 0.4), "mu": (0.4, 0.5), "sigma": (0.3, 0.4),
        "delta": (1.5, 1.5), "kappa": (1.0, 3.0), "lambda": (0.4, 0.5), "mean": (2.0, 1.5), "std": (0.8, 0.6),
        "vmu": (0.2, 1.0)}
GIVEN = [0.0, 0.4, -1.3, 2.7, 6.0]     # incl. 0 and a negative conditioning value (normal / von Mises conditioners)
PROBS = [0.1, 0.6, 0.97, 0.35, 0.85]


def raw(shape, g, a, b):
    g = np.asarray(g, dtype=float)
    if shape == "inc":
        return a + b * g * g / (1.0 + g * g)
    if shape == "dec":
        return a + b / (1.0 + g * g)
    return a + 0.0 * g


def mk_partial(shape, b):
    """only the LAST coefficient has a default in the signature: a defaults to 1, b to its declared value"""
    if shape == "inc":
        def f(x, a, b=b):
            return a + b * x * x / (1.0 + x * x)
    else:
        def f(x, a, b=b):
            return a + b / (1.0 + x * x)
    return f


def mk_func(shape, a, b, with_defaults):
    if shape == "inc":
        if with_defaults:
            def f(x, a=a, b=b):
                return a + b * x * x / (1.0 + x * x)
        else:
            def f(x, a, b):
                return a + b * x * x / (1.0 + x * x)
    elif shape == "dec":
        if with_defaults:
            def f(x, a=a, b=b):
                return a + b / (1.0 + x * x)
        else:
            def f(x, a, b):
                return a + b / (1.0 + x * x)
    else:
        if with_defaults:
            def f(x, a=a):
                return a + 0.0 * x
        else:
            def f(x, a):
                return a + 0.0 * x
    return f


def _int_const(v):
    def f(x, a=v):
        return a
    return f


def mk_outer(a0):
    def outer(x, c=0.5, inner_of_x=None):
        return c * inner_of_x(x) + 0.5 * a0

    return outer


def build(case):
    """Returns (conditional distribution, theta(g) function, template class)."""
    fam = case["family"]
    cls, names, roles = zoo.FAMILIES[fam]
    dep = case["dependent"]  # {name: shape}
    variant = case["variant"]
    fixed_kw = {}
    theta_funcs = {}
    params = {}
    for n, r in zip(names, roles):
        a, b = COEF[r]
        if variant == "zero_at_origin" and r in ("loc", "mu", "vmu"):
            a = 0.0  # the location-like parameter is exactly 0 (falsy) at g = 0
        if n not in dep:
            fixed_kw["f_" + n] = a
            theta_funcs[n] = (lambda g, a=a: a)
            continue
        shape = dep[n]
        if variant in ("signature", "zero_at_origin", "template_decoy"):
            d = DependenceFunction(mk_func(shape, a, b, True))
            theta_funcs[n] = (lambda g, s=shape, a=a, b=b: raw(s, g, a, b))
        elif variant == "assigned":
            d = DependenceFunction(mk_func(shape, a, b, False))
            d.parameters = {"a": a, "b": b} if shape != "const" else {"a": a}
            theta_funcs[n] = (lambda g, s=shape, a=a, b=b: raw(s, g, a, b))
        elif variant == "assigned_reversed":
            # the same coefficients assigned as a dict whose keys are in another order (a dict is keyed by name)
            d = DependenceFunction(mk_func(shape, a, b, False))
            d.parameters = {"b": b, "a": a} if shape != "const" else {"a": a}
            theta_funcs[n] = (lambda g, s=shape, a=a, b=b: raw(s, g, a, b))
        elif variant == "int_constant":
            # the dependence function returns a python int (whatever the conditioning value is)
            ival = int(round(a)) + 2
            d = DependenceFunction(_int_const(ival))
            theta_funcs[n] = (lambda g, v=ival: float(v))
        elif variant == "partial_defaults":
            d = DependenceFunction(mk_partial(shape if shape != "const" else "dec", b))
            theta_funcs[n] = (lambda g, s=(shape if shape != "const" else "dec"), b=b: raw(s, g, 1.0, b))
        elif variant == "default1":
            # coefficients default to 1 when the signature has no defaults
            d = DependenceFunction(mk_func(shape, a, b, False))
            theta_funcs[n] = (lambda g, s=shape: raw(s, g, 1.0, 1.0))
        elif variant == "chained":
            # theta = c * inner(g): the inner dependence function is a parameter of the outer one
            inner = DependenceFunction(mk_func(shape, a, b, True))

            d = DependenceFunction(mk_outer(a), inner_of_x=inner)
            theta_funcs[n] = (lambda g, s=shape, a=a, b=b: 0.5 * raw(s, g, a, b) + 0.5 * a)
        else:
            raise ValueError(variant)
        params[n] = d
    template = cls(**fixed_kw)
    cond = ConditionalDistribution(template, params)
    if variant == "template_decoy":
        # the template's plain attributes are given other values afterwards (say, as start values for a later fit): the
        # FIXED values (f_<name>) are what a conditional distribution uses for its non-dependent parameters
        for obj in {id(template): template, id(cond.distribution): cond.distribution}.values():
            for n, r in zip(names, roles):
                if n not in dep:
                    setattr(obj, n, COEF[r][0] * 1.7 + 0.3)

    def theta(g):
        return {n: float(theta_funcs[n](g)) for n in names}

    return cond, theta, fam


def close(a, b, rel=1e-13):
    a, b = np.asarray(a, dtype=float), np.asarray(b, dtype=float)
    if a.shape != b.shape:
        return False
    with np.errstate(all="ignore"):
        return bool(np.all((np.abs(a - b) <= rel * np.abs(b)) | (a == b) | (np.isnan(a) & np.isnan(b))))


def run_case(case):
    viol = []
    count = {"calls": 0}
    fam = case["family"]

    def bad(method, clause, kind, detail):
        sig = {"check": "conditional", "family": fam, "method": method, "clause": clause}
        if fam == "NormalDistribution" and "sigma" in case["dependent"]:
            sig["dependent_sigma"] = True
        if not any(v["sig"] == sig for v in viol):
            detail = dict(detail)
            detail["given_kind"] = kind
            viol.append({"sig": sig, "detail": detail, "case": case})

    cond, theta, fam = build(case)
    if case["variant"] == "default1":
        # parameters default to 1: only admissible for some roles; evaluate and compare anyway where finite
        pass
    gs = np.array(GIVEN)
    refs = [zoo.make(fam, theta(g)) for g in gs]
    ps = np.array(PROBS)
    xs = np.array([float(r.icdf(p)) for r, p in zip(refs, ps)])
    if not np.all(np.isfinite(xs)):
        return {"viol": [], "n": 0, "nontrivial": 0, "count": {"inadmissible_skipped": 1}}
    moved = abs(float(refs[0].cdf(xs[2])) - float(refs[-1].cdf(xs[2]))) > 1e-3
    exp = {"pdf": np.array([float(r.pdf(x)) for r, x in zip(refs, xs)]),
           "cdf": np.array([float(r.cdf(x)) for r, x in zip(refs, xs)]),
           "icdf": np.array([float(r.icdf(p)) for r, p in zip(refs, ps)])}
    for method in ("pdf", "cdf", "icdf"):
        arg = ps if method == "icdf" else xs
        f = getattr(cond, method)
        # vector - vector (IFORM path)
        try:
            count["calls"] += 1
            got = f(arg, gs)
            if not close(got, exp[method]):
                bad(method, "vectorised_vs_template", "vecvec", {"got": got, "expected": exp[method], "given": gs, "arg": arg})
            count["calls"] += 1
            got = f(list(arg), list(gs)) if False else f(arg.copy(), given=gs.copy())
            if not close(got, exp[method]):
                bad(method, "vectorised_vs_template", "vecvec_kw", {"got": got, "expected": exp[method]})
        except Exception as e:
            bad(method, "exception", "vecvec", {"type": type(e).__name__, "msg": str(e)[:200]})
        # scalar - scalar (ISORM path), three spellings of the scalar
        for kind, conv in (("float", float), ("npfloat", np.float64), ("len1", lambda v: np.array([v]))):
            for i in range(len(gs)):
                try:
                    count["calls"] += 1
                    got = f(conv(arg[i]), conv(gs[i]))
                    if not close(np.asarray(got, dtype=float).reshape(-1), exp[method][i:i + 1]):
                        bad(method, "scalar_vs_template", kind, {"got": got, "expected": exp[method][i], "given": gs[i], "arg": arg[i]})
                except Exception as e:
                    bad(method, "exception", kind, {"type": type(e).__name__, "msg": str(e)[:200]})
        # scalar given - vector x (HDC path)
        for i in range(len(gs)):
            try:
                count["calls"] += 1
                got = f(arg, float(gs[i]))
                e1 = np.array([float(getattr(refs[i], method)(a)) for a in arg])
                if not close(got, e1):
                    bad(method, "scalar_given_vector_x", "scalar_vecx", {"got": got, "expected": e1, "given": gs[i]})
            except Exception as e:
                bad(method, "exception", "scalar_vecx", {"type": type(e).__name__, "msg": str(e)[:200]})
    # outer evaluation: a column of conditioning values against a row of x (numpy broadcasting of the template's parameters):
    # table[j, i] = template(theta(g_j)).method(x_i); m == n (a silent "diagonal only" would have the wrong shape) and m != n
    for method in ("pdf", "cdf", "icdf"):
        arg = ps if method == "icdf" else xs
        f = getattr(cond, method)
        for rows in (len(gs), 3):
            col = gs[:rows].reshape(-1, 1)
            e_tab = np.array([[float(getattr(refs[j], method)(a)) for a in arg] for j in range(rows)])
            try:
                count["calls"] += 1
                got = np.asarray(f(arg, col), dtype=float)
                if got.shape == e_tab.shape[1:] and all(np.array_equal(e_tab[0], r_, equal_nan=True) for r_ in e_tab) and close(got, e_tab[0]):
                    pass    # dependence functions that return a plain scalar for any input do not broadcast: one row is the template's answer
                elif got.shape != e_tab.shape or not close(got, e_tab):
                    bad(method, "column_given_outer_table", f"column{rows}x1", {"got_shape": list(got.shape), "expected_shape": list(e_tab.shape),
                                                                                  "got": got, "expected": e_tab})
            except Exception as e:
                bad(method, "exception", f"column{rows}x1", {"type": type(e).__name__, "msg": str(e)[:200]})
    # a caller's buffer reused for the next block of conditioning values (same object, new contents)
    for method in ("pdf", "cdf", "icdf"):
        arg = ps if method == "icdf" else xs
        f = getattr(cond, method)
        e_rev = np.array([float(getattr(r, method)(a)) for r, a in zip(refs[::-1], arg)])
        for kind, buf in (("reused_array", gs.copy()),):   # (lists are passed through to the user's function, which need not accept them)
            try:
                count["calls"] += 2
                f(arg, buf)
                if isinstance(buf, list):
                    buf.reverse()
                else:
                    buf[:] = buf[::-1].copy()
                got = f(arg, buf)
                if not close(got, e_rev):
                    bad(method, "stale_after_buffer_reuse", kind, {"got": got, "expected": e_rev, "given_now": list(map(float, buf))})
            except Exception as e:
                bad(method, "exception", kind, {"type": type(e).__name__, "msg": str(e)[:200]})
    # integer-valued conditioning values (int arrays / python ints) are values like any other
    gi = np.array([0, 1, 2, 3, 6])
    refs_i = [zoo.make(fam, theta(float(g))) for g in gi]
    for method in ("pdf", "cdf", "icdf"):
        arg = ps if method == "icdf" else xs
        e_i = np.array([float(getattr(r, method)(a)) for r, a in zip(refs_i, arg)])
        try:
            count["calls"] += 2
            got = getattr(cond, method)(arg, gi)
            if not close(got, e_i):
                bad(method, "integer_given_vs_template", "int_vector", {"got": got, "expected": e_i, "given": gi})
            got = getattr(cond, method)(float(arg[2]), int(gi[2]))
            if not close(np.asarray(got, dtype=float).reshape(-1), e_i[2:3]):
                bad(method, "integer_given_vs_template", "int_scalar", {"got": got, "expected": e_i[2], "given": int(gi[2])})
        except Exception as e:
            bad(method, "exception", "int_vector", {"type": type(e).__name__, "msg": str(e)[:200]})
    try:
        count["calls"] += 1
        got = np.asarray(cond.draw_sample(1, gi, random_state=99), dtype=float)
        th_i = [theta(float(g)) for g in gi]
        kw_i = {n: np.array([t[n] for t in th_i]) for n in th_i[0]}
        e_s = np.asarray(zoo.FAMILIES[fam][0]().draw_sample(1, **kw_i, random_state=99), dtype=float)
        if not close(got, e_s, 1e-12):
            bad("draw_sample", "integer_given_vs_template", "int_vector", {"got": got, "expected": e_s, "given": gi})
    except Exception as e:
        bad("draw_sample", "exception", "int_vector", {"type": type(e).__name__, "msg": str(e)[:200]})
    # sampling: equals the template's draw_sample with explicit parameter values under the same seed
    seed = 1234
    try:
        count["calls"] += 2
        got = np.asarray(cond.draw_sample(1, gs, random_state=seed), dtype=float)
        th = [theta(g) for g in gs]
        kw = {n: np.array([t[n] for t in th]) for n in th[0]}
        e1 = np.asarray(zoo.FAMILIES[fam][0]().draw_sample(1, **kw, random_state=seed), dtype=float)
        if not close(got, e1, 1e-12):
            bad("draw_sample", "vectorised_vs_template", "vec", {"got": got, "expected": e1})
        for i in (0, 3):
            got = np.asarray(cond.draw_sample(7, float(gs[i]), random_state=seed), dtype=float)
            e2 = np.asarray(refs[i].draw_sample(7, random_state=seed), dtype=float)
            if got.shape != (7,) or not close(got, e2, 1e-12):
                bad("draw_sample", "scalar_vs_template", "float", {"got": got, "expected": e2})
    except Exception as e:
        bad("draw_sample", "exception", "vec", {"type": type(e).__name__, "msg": str(e)[:200]})
    return {"viol": viol, "n": count["calls"], "nontrivial": 1 if moved else 0,
            "outcomes": [f"{fam}:{len(viol)}"], "count": {"calls": count["calls"]}}


def main(ctx):
    ctx.rule = ("complete product: template family (10) x every partition of its parameters into fixed/dependent "
                "(dependent set non-empty) x dependence shape per dependent parameter {inc, dec, const} x coefficient "
                "source {signature defaults, assigned parameters, default 1, chained through another DependenceFunction, location exactly 0 at g=0, defaults for the trailing coefficients only} "
                "x method {pdf, cdf, icdf, draw_sample} x given kind {vector/vector, float, numpy scalar, length-1 "
                "array, scalar given with vector x}. evaluations = method calls; a case is non-trivial if the "
                "conditional cdf moves by > 1e-3 between the smallest and the largest conditioning value.")
    ctx.assumptions = ["reference = template instance constructed with theta(g) (anchored to mpmath by C05)",
                       "theta(g) computed from the raw python shape functions, not through DependenceFunction"]
    cases = []
    shapes = ("inc", "dec", "const")
    for fam, (cls, names, roles) in zoo.FAMILIES.items():
        for k in range(1, len(names) + 1):
            for dep_names in itertools.combinations(names, k):
                for assign in itertools.product(shapes, repeat=k):
                    variants = ["signature", "assigned", "assigned_reversed"]
                    if k < len(names):
                        variants += ["template_decoy"]
                    if assign == ("const",) * k and k == 1:
                        variants += ["int_constant"]
                    if assign == ("inc",) * k:
                        variants += ["chained"]
                        if any(r in ("loc", "mu", "vmu") for n_, r in zip(names, roles) if n_ in dep_names):
                            variants += ["zero_at_origin"]
                        if all(r not in ("loc",) for r in roles):
                            variants += ["default1", "partial_defaults"]
                    for v in variants:
                        cases.append({"family": fam, "dependent": dict(zip(dep_names, assign)), "variant": v})
                        ctx.axis("family", zoo.SHORT[fam])
                        ctx.axis("variant", v)
                        ctx.axis("n_dependent", k)
    ctx.pmap(cases, chunksize=4, label="conditional")
