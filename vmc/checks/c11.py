"""C11 - fixed parameters are honoured at construction, in evaluation and through fitting (lattice exploration)."""

import itertools

import numpy as np

from virocon import DependenceFunction, GlobalHierarchicalModel, LogNormalDistribution, NumberOfIntervalsSlicer
from virocon.distributions import ConditionalDistribution

from .. import zoo

PROPERTY = "C11"
LEVEL = "exploration"

# two fixed values per role (first differs from every default; locations include 0)
# third value: exactly 0 (int and float spellings are falsy!) for every location-like role, 1 for the others (= a default)
FIXVAL = {"scale": (1.7, 0.6, 1), "shape": (1.3, 2.2, 1), "loc": (0.0, 0.25, 0), "mu": (0.45, -0.2, 0.0), "sigma": (0.45, 0.8, 1),
          "delta": (2.5, 0.7, 1), "kappa": (2.5, 0.8, 1), "lambda": (0.6, 1.4, 1), "mean": (1.8, 2.6, 1), "std": (0.9, 0.5, 1),
          "vmu": (0.3, -0.4, 0)}
# a fourth value for circular locations: outside [-pi, pi] (scipy's von Mises fit wraps the location)
FIXVAL_EXTRA = {"vmu": 4.0}
# boundary values of the circular location: exactly +pi and -pi (which = 4, 5), just inside (6)
import math
FIXVAL_EXTRA_MORE = {4: {"vmu": math.pi}, 5: {"vmu": -math.pi}, 6: {"vmu": 3.141592653589793 - 1e-9}}
TRUE = {"WeibullDistribution": dict(alpha=1.5, beta=1.6, gamma=0.5),
        "LogNormalDistribution": dict(mu=0.5, sigma=0.4),
        "NormalDistribution": dict(mu=0.5, sigma=0.6),
        "LogNormalNormFitDistribution": dict(mu_norm=2.0, sigma_norm=0.8),
        "ExponentiatedWeibullDistribution": dict(alpha=1.4, beta=1.5, delta=2.0),
        "GeneralizedGammaDistribution": dict(m=1.5, c=1.4, lambda_=0.7),
        "VonMisesDistribution": dict(kappa=2.0, mu=0.3),
        "GumbelR": dict(loc=0.5, scale=0.6),
        "GammaS": dict(a=2.0, loc=0.5, scale=0.6),
        "WeibullMinS": dict(c=1.6, loc=0.5, scale=1.5),
        "ExponWeibS": dict(a=2.5, c=1.3, loc=0.5, scale=1.2)}
POSITIVE = {"WeibullDistribution", "LogNormalDistribution", "LogNormalNormFitDistribution",
            "ExponentiatedWeibullDistribution", "GeneralizedGammaDistribution", "GammaS", "WeibullMinS", "ExponWeibS"}


def data_for(fam, source, n, seed):
    rs = np.random.RandomState(seed)
    if source == "own":
        d = zoo.make(fam, TRUE[fam]).draw_sample(n, random_state=rs)
        return np.asarray(d, dtype=float)
    if fam == "VonMisesDistribution":
        x = rs.normal(0.3, 0.8, n)
        return (x + np.pi) % (2 * np.pi) - np.pi
    if fam in POSITIVE:
        return np.exp(rs.normal(0.5, 0.4, n)) + 0.3  # > 0.3, so fixed locations 0 / 0.25 stay admissible
    return rs.logistic(0.4, 0.5, n)


def loglik(inst, data):
    with np.errstate(all="ignore"):
        p = np.asarray(inst.pdf(data), dtype=float)
        if np.any(p <= 0) or np.any(~np.isfinite(p)):
            return -np.inf
        return float(np.sum(np.log(p)))


def admissible(fam, params):
    cls, names, roles = zoo.FAMILIES[fam]
    for n, r in zip(names, roles):
        v = params[n]
        if not np.isfinite(v):
            return False
        if r in ("scale", "shape", "sigma", "delta", "kappa", "lambda", "mean", "std") and not v > 0:
            return False
    return True


def run_case(case):
    fam, fixed_names, which = case["family"], case["fixed"], case["which"]
    cls, names, roles = zoo.FAMILIES[fam]
    role = dict(zip(names, roles))
    fixed = {n: (FIXVAL[role[n]][which] if which < 3 else (FIXVAL_EXTRA if which == 3 else FIXVAL_EXTRA_MORE[which]).get(role[n], FIXVAL[role[n]][0]))
             for n in fixed_names}
    viol = []
    count = {"checks": 0}

    def bad(clause, detail, **extra):
        sig = {"check": "fixed", "family": fam, "clause": clause}
        sig.update(extra)
        if not any(v["sig"] == sig for v in viol):
            viol.append({"sig": sig, "detail": detail, "case": case})

    fkw = {"f_" + n: v for n, v in fixed.items()}
    free = [n for n in names if n not in fixed]
    mode = case["mode"]

    # ---------------- construction and evaluation
    if mode == "construct":
        # free parameters get admissible non-default values; the plain argument of a fixed parameter is a decoy
        # ("If this parameter is set, <name> is ignored")
        inst = cls(**{n: TRUE[fam][n] for n in names}, **fkw)
        for n, v in fixed.items():
            count["checks"] += 1
            if inst.parameters[n] != v:
                bad("construction", {"param": n, "fixed": v, "got": inst.parameters[n]}, stage="parameters")
            if cls(**fkw).parameters[n] != v:
                bad("construction", {"param": n, "fixed": v, "got": cls(**fkw).parameters[n], "decoy": False}, stage="parameters")
        # evaluation uses the fixed value: compare with an instance constructed with plain values
        plain = {n: (fixed[n] if n in fixed else TRUE[fam][n]) for n in names}
        ref = zoo.make(fam, plain)
        xs = np.array([float(ref.icdf(p)) for p in (0.1, 0.5, 0.9)])
        for m, arg in (("cdf", xs), ("pdf", xs), ("icdf", np.array([0.1, 0.5, 0.9]))):
            count["checks"] += 1
            got = np.asarray(getattr(inst, m)(arg), dtype=float)
            exp = np.asarray(getattr(ref, m)(arg), dtype=float)
            if not np.allclose(got, exp, rtol=1e-14, atol=0):
                bad("evaluation", {"method": m, "got": got, "expected": exp, "fixed": fixed}, stage="evaluate")
        # keyword order reversed: the f_ keywords BEFORE the plain ones (python keeps the caller's keyword order)
        count["checks"] += 1
        try:
            instr = cls(**fkw, **{n: TRUE[fam][n] for n in names})
            for n, v in fixed.items():
                if instr.parameters[n] != v:
                    bad("construction", {"param": n, "fixed": v, "got": instr.parameters[n], "style": "f_keywords_first"}, stage="parameters")
            for n in free:
                if instr.parameters[n] != TRUE[fam][n]:
                    bad("construction", {"param": n, "free_value": TRUE[fam][n], "got": instr.parameters[n], "style": "f_keywords_first"}, stage="parameters")
        except Exception as e:
            bad("construction", {"style": "f_keywords_first", "type": type(e).__name__, "msg": str(e)[:120]}, stage="parameters")
        # the same instance built with POSITIONAL plain values (decoys for the fixed ones) next to the f_ keywords
        try:
            instp = cls(*[TRUE[fam][n] for n in names], **fkw)
        except Exception as e:
            instp = None
            bad("construction", {"style": "positional", "type": type(e).__name__, "msg": str(e)[:120]}, stage="parameters")
        if instp is not None:
            for n, v in fixed.items():
                count["checks"] += 1
                if instp.parameters[n] != v:
                    bad("construction", {"param": n, "fixed": v, "got": instp.parameters[n], "style": "positional"}, stage="parameters")
            for n in free:
                if instp.parameters[n] != TRUE[fam][n]:
                    bad("construction", {"param": n, "free_value": TRUE[fam][n], "got": instp.parameters[n], "style": "positional"}, stage="parameters")
            for m, arg in (("cdf", xs), ("pdf", xs), ("icdf", np.array([0.1, 0.5, 0.9]))):
                count["checks"] += 1
                got = np.asarray(getattr(instp, m)(arg), dtype=float)
                exp = np.asarray(getattr(ref, m)(arg), dtype=float)
                if not np.allclose(got, exp, rtol=1e-14, atol=0):
                    bad("evaluation", {"method": m, "got": got, "expected": exp, "fixed": fixed, "style": "positional"}, stage="evaluate")
        # the fixed value is also used when another parameter is passed explicitly to the call
        for fn in free:
            alt = FIXVAL[role[fn]][1]
            if fam == "LogNormalNormFitDistribution":
                continue    # both-or-none rule of this class
            ref2 = zoo.make(fam, dict(plain, **{fn: alt}))
            for m, arg in (("cdf", xs), ("pdf", xs), ("icdf", np.array([0.1, 0.5, 0.9]))):
                count["checks"] += 1
                try:
                    got = np.asarray(getattr(inst, m)(arg, **{fn: alt}), dtype=float)
                except Exception as e:
                    bad("evaluation", {"method": m, "explicit": fn, "type": type(e).__name__, "msg": str(e)[:120]}, stage="evaluate")
                    continue
                exp = np.asarray(getattr(ref2, m)(arg), dtype=float)
                if not np.allclose(got, exp, rtol=1e-14, atol=0, equal_nan=True):
                    bad("evaluation", {"method": m, "explicit": fn, "got": got, "expected": exp, "fixed": fixed}, stage="evaluate")
                # the same call with positional parameters (None = "use the instance's value")
                count["checks"] += 1
                pos = [alt if n == fn else None for n in names]
                try:
                    gotp = np.asarray(getattr(inst, m)(arg, *pos), dtype=float)
                except Exception as e:
                    bad("evaluation", {"method": m, "explicit_positional": fn, "type": type(e).__name__, "msg": str(e)[:120]}, stage="evaluate")
                    continue
                if not np.allclose(gotp, exp, rtol=1e-14, atol=0, equal_nan=True):
                    bad("evaluation", {"method": m, "explicit_positional": fn, "got": gotp, "expected": exp, "fixed": fixed}, stage="evaluate")
        s1 = np.asarray(inst.draw_sample(5, random_state=3))
        s2 = np.asarray(ref.draw_sample(5, random_state=3))
        if not np.allclose(s1, s2, rtol=1e-14, atol=0):
            bad("evaluation", {"method": "draw_sample", "got": s1, "expected": s2}, stage="evaluate")
        # conditional wrapper: fixed value for every conditioning value
        if free:
            deps = {n: DependenceFunction(_lin(zoo.GRID[role[n]][1] if role[n] != "loc" else 0.1)) for n in free}
            cond = ConditionalDistribution(cls(**fkw), deps)
            for g in (0.0, 0.3, 1.0, 4.0, np.array([0.5, 2.0])):
                pv = cond._get_param_values(g)
                for n, v in fixed.items():
                    count["checks"] += 1
                    if not np.all(np.asarray(pv[n]) == v):
                        bad("conditional_param_values", {"param": n, "given": g, "got": pv[n], "fixed": v}, stage="evaluate")
        return {"viol": viol, "n": count["checks"], "nontrivial": 1, "outcomes": [f"{fam}:construct:{len(viol)}"]}

    # ---------------- fitting
    method, source, n, seed = case["method"], case["source"], case["n"], case["seed"]
    data = data_for(fam, source, n, seed)
    kw = {}
    if method in ("lsq", "wlsq"):
        kw = {"method": method, "weights": ("quadratic" if method == "wlsq" else None)}
    if mode == "fit":
        inst = cls(**fkw)
        start = dict(inst.parameters)
        try:
            ll0 = loglik(inst, data) if all(np.isfinite(list(start.values()))) else -np.inf
        except ZeroDivisionError:  # the default LogNormalNormFit (mean 0) has no density
            ll0 = -np.inf
        supported = not (method in ("lsq", "wlsq") and (set(fixed) != {"delta"}))
        try:
            if kw:
                inst.fit(data, **kw)
            else:
                inst.fit(data)
        except Exception as e:
            if not supported:
                return {"viol": [], "n": 1, "nontrivial": 0, "count": {"refused_unsupported": 1}}
            bad("fit_exception", {"type": type(e).__name__, "msg": str(e)[:200], "fixed": fixed}, stage="fit",
                exc=type(e).__name__)
            return {"viol": viol, "n": 1, "nontrivial": 1, "outcomes": [f"{fam}:exc"]}
        res = dict(inst.parameters)
        for nme, v in fixed.items():
            count["checks"] += 1
            if not abs(res[nme] - v) <= 1e-12 * abs(v):
                bad("fixed_after_fit", {"param": nme, "fixed": v, "got": res[nme], "method": method}, stage="fit")
        if not admissible(fam, res):
            bad("inadmissible_after_fit", {"params": res}, stage="fit")
        elif free:
            if all(res[f] == start[f] for f in free):
                bad("free_not_estimated", {"params": res, "start": start}, stage="fit")
            if method == "mle" and fam != "LogNormalNormFitDistribution":
                ll1 = loglik(inst, data)
                count["checks"] += 1
                if np.isfinite(ll0) and not ll1 >= ll0 - 1e-9 * abs(ll0):
                    bad("likelihood_decreased", {"ll_start": ll0, "ll_fit": ll1, "params": res, "start": start}, stage="fit")
        return {"viol": viol, "n": 1 + count["checks"], "nontrivial": 1, "outcomes": [f"{fam}:fit:{len(viol)}"]}

    # ---------------- conditional fit (alone and through GlobalHierarchicalModel.fit)
    if mode in ("condfit", "ghmfit"):
        if not free:
            return {"viol": [], "n": 0, "nontrivial": 0}
        deps = {nme: DependenceFunction(_lin(1.0)) for nme in free}
        rs = np.random.RandomState(seed + 1)
        x0 = np.exp(rs.normal(0.3, 0.5, n))
        try:
            if mode == "condfit":
                template = cls(**fkw)
                cond = ConditionalDistribution(template, deps)
                edges = np.quantile(x0, [0, 1 / 3, 2 / 3, 1])
                groups = [data[(x0 >= lo) & (x0 <= hi)] for lo, hi in zip(edges[:-1], edges[1:])]
                cond.fit(groups, [np.median(x0[(x0 >= lo) & (x0 <= hi)]) for lo, hi in zip(edges[:-1], edges[1:])],
                         list(zip(edges[:-1], edges[1:])), "mle")
            else:
                template = cls(**fkw)
                ghm = GlobalHierarchicalModel([
                    {"distribution": LogNormalDistribution(),
                     "intervals": NumberOfIntervalsSlicer(3, min_n_points=10, value_range=(float(np.quantile(x0, 0.02)), float(np.quantile(x0, 0.95))))},
                    {"distribution": template, "conditional_on": 0, "parameters": deps}])
                ghm.fit(np.c_[x0, data])
                cond = ghm.distributions[1]
        except Exception as e:
            bad("fit_exception", {"type": type(e).__name__, "msg": str(e)[:200], "fixed": fixed}, stage=mode,
                exc=type(e).__name__)
            return {"viol": viol, "n": 1, "nontrivial": 1, "outcomes": [f"{fam}:exc"]}
        for nme, v in fixed.items():
            count["checks"] += 1
            if cond.fixed_parameters.get(nme) != v:
                bad("fixed_after_fit", {"param": nme, "where": "fixed_parameters", "got": cond.fixed_parameters.get(nme)}, stage=mode)
            for k, pi in enumerate(cond.parameters_per_interval):
                if not abs(pi[nme] - v) <= 1e-12 * abs(v):
                    bad("fixed_after_fit", {"param": nme, "interval": k, "got": pi[nme], "fixed": v}, stage=mode)
            for g in (0.2, 1.0, 3.0):
                if cond._get_param_values(g)[nme] != v:
                    bad("conditional_param_values", {"param": nme, "given": g}, stage=mode)
            if template.parameters[nme] != v:
                bad("template_changed", {"param": nme, "got": template.parameters[nme]}, stage=mode)
        return {"viol": viol, "n": 1 + count["checks"], "nontrivial": 1, "outcomes": [f"{fam}:{mode}:{len(viol)}"]}
    raise ValueError(mode)


def _lin(a0):
    def lin(x, a=a0, b=0.0):
        return a + b * x

    return lin


def main(ctx):
    ctx.rule = ("complete product: family (10) x every non-empty subset of parameters fixed (proper subsets for fitting; "
                "the full set for construction/evaluation) x 3 fixed values per parameter (one of them exactly 0 for every location-like parameter) x stage {construction+"
                "evaluation+conditional wrapper, fit, ConditionalDistribution.fit, GlobalHierarchicalModel.fit} x "
                "method {mle; lsq, wlsq for the exponentiated Weibull} x data {own family (2 seeds), other family} x "
                "n in {200, 2000}. All cases count as non-trivial except refused unsupported combinations.")
    ctx.assumptions = ["fixed values are chosen compatible with the data (fixed locations below the sample minimum)",
                       "EW least squares with alpha or beta fixed is documented as not implemented: any exception is a refusal"]
    cases = []
    for fam, (cls, names, roles) in zoo.FAMILIES.items():
        for k in range(1, len(names) + 1):
            for fx in itertools.combinations(names, k):
                for which in ((0, 1, 2, 3, 4, 5, 6) if (fam == "VonMisesDistribution" and "mu" in fx) else (0, 1, 2)):
                    cases.append({"family": fam, "fixed": list(fx), "which": which, "mode": "construct"})
                    if k == len(names):
                        continue
                    methods = ["mle"] + (["lsq", "wlsq"] if fam == "ExponentiatedWeibullDistribution" else [])
                    for method in methods:
                        srcs = [("own", 1), ("own", 2), ("other", 1)] + ([] if ctx.quick else [("own", 3), ("other", 2)])
                        ns = (200, 2000) if ctx.quick else (50, 200, 2000, 10000)
                        for (src, seed), n in itertools.product(srcs, ns):
                            cases.append({"family": fam, "fixed": list(fx), "which": which, "mode": "fit",
                                          "method": method, "source": src, "n": n, "seed": seed})
                    for mode in ("condfit", "ghmfit"):
                        cases.append({"family": fam, "fixed": list(fx), "which": which, "mode": mode, "method": "mle",
                                      "source": "own", "n": 600, "seed": 1})
    for c in cases:
        ctx.axis("family", zoo.SHORT[c["family"]])
        ctx.axis("mode", c["mode"])
    ctx.pmap(cases, chunksize=2, label="fixed")
