"""C13 - exponentiated-Weibull least squares = weighted quantile regression, any weights (lattice exploration)."""

import itertools

import numpy as np

from virocon import ExponentiatedWeibullDistribution

PROPERTY = "C13"
LEVEL = "exploration"

ORDERS = ["sorted", "reversed", "shuffle1", "shuffle2"]
WSPECS = ["none", "linear", "quadratic", "cubic", "arr_x2", "arr_inv", "arr_irregular"]


def sample(src, n, zeros, ties, seed=11):
    rs = np.random.RandomState(seed + n)
    if src == "ew":
        u = rs.uniform(size=n)
        x = 2.0 * (-np.log(1 - u ** (1 / 2.5))) ** (1 / 1.3)
    elif src == "weibull":
        x = 1.5 * rs.weibull(1.4, n)
    else:
        x = np.exp(rs.normal(0.3, 0.6, n))
    if ties:
        x = np.round(x, 1)
        x[x == 0] = 0.1
    x = np.sort(x)
    x[:zeros] = 0.0
    return x


def order(x, how):
    if how == "sorted":
        return np.sort(x)
    if how == "reversed":
        return np.sort(x)[::-1].copy()
    rs = np.random.RandomState(1 if how == "shuffle1" else 2)
    return np.sort(x)[rs.permutation(len(x))]


def array_weights(kind, x, scale):
    if kind == "arr_x2":
        w = x ** 2
        w = np.where(x == 0, 1.0, w)  # weight of a zero observation is irrelevant, but must be finite
    elif kind == "arr_inv":
        w = 1.0 / (1.0 + x)
    else:  # irregular, but a function of the observation's value (so tied observations share their weight)
        w = 0.25 + np.abs(np.sin(1000.0 * x + 0.3)) + (np.floor(x * 7) % 3) * 0.5
    return scale * w


def ref_weights(wspec, xs, scale):
    """weights per sorted observation (any normalisation)"""
    if wspec == "none":
        return np.ones_like(xs)
    if wspec == "linear":
        return xs.copy()
    if wspec == "quadratic":
        return xs ** 2
    if wspec == "cubic":
        return xs ** 3
    return array_weights(wspec, xs, scale)


def ref_alpha_beta(xs, w, delta):
    """Weighted linear regression of log10 x on log10(-ln(1-p^(1/delta))), p_i=(i-0.5)/n over the full sample,
    zero observations left out. numpy.linalg.lstsq on sqrt(w)-scaled rows."""
    n = len(xs)
    p = (np.arange(1, n + 1) - 0.5) / n
    keep = xs != 0
    xs_, p_, w_ = xs[keep], p[keep], w[keep]
    ystar = np.log10(xs_)
    with np.errstate(all="ignore"):
        pstar = np.log10(-np.log(1 - p_ ** (1 / delta)))
    if not (np.all(np.isfinite(pstar)) and np.all(np.isfinite(w_))):
        return float("nan"), float("nan")      # plotting positions not representable at this delta
    A = np.c_[np.ones_like(pstar), pstar] * np.sqrt(w_)[:, None]
    sol, *_ = np.linalg.lstsq(A, ystar * np.sqrt(w_), rcond=None)
    a, b = sol
    return 10 ** a, 1 / b


def xspace_error(xs, w, delta):
    n = len(xs)
    p = (np.arange(1, n + 1) - 0.5) / n
    keep = xs != 0
    with np.errstate(all="ignore"):
        if not np.all(np.isfinite(np.log10(-np.log(1 - p[keep] ** (1 / delta))))):
            return None     # the plotting positions are not representable at this delta (tiny samples, extreme delta)
    alpha, beta = ref_alpha_beta(xs, w, delta)
    xhat = alpha * (-np.log(1 - p[keep] ** (1 / delta))) ** (1 / beta)
    ww = w[keep] / np.sum(w[keep])
    return float(np.sum(ww * (xs[keep] - xhat) ** 2))


def run_case(case):
    src, n, zeros, ties = case["src"], case["n"], case["zeros"], case["ties"]
    wspec, scale, delta, method = case["wspec"], case["scale"], case["delta"], case["method"]
    viol = []
    base = np.array(case["data"], dtype=float) if case.get("data") is not None else sample(src, n, zeros, ties)
    if case.get("tiny"):            # a few strictly positive but very small observations (they are observations, not zeros)
        base = np.sort(np.asarray(base, dtype=float))
        k0 = int(np.sum(base == 0))
        base[k0:k0 + 3] = [1e-12, 2e-9, 9e-9]
    if case.get("data_scale"):      # the whole record in a very small / very large unit
        base = np.asarray(base, dtype=float) * case["data_scale"]
    if case.get("int_data"):        # observations recorded as integers (whole centimetres, counts): int64 array / list of python ints
        base = np.round(base * 100).astype(np.int64)
    xs = np.sort(base).astype(float)
    wref = ref_weights(wspec, xs, scale)
    results = {}
    nfits = 0
    for how in case.get("orders", ORDERS):
        data = order(base, how)
        if case.get("int_data") == "list" and how == "shuffle1":
            data = [int(v) for v in data]
        if wspec == "none":
            weights = None
        elif wspec.startswith("arr_"):
            weights = array_weights(wspec, np.asarray(data, dtype=float), scale)  # weights travel with their observations
            if how == "shuffle2":
                weights = weights.tolist()               # array_like: a python list of weights
        else:
            weights = wspec
        data_in = np.array(data)
        w_in = None if not isinstance(weights, (np.ndarray, list)) else np.array(weights, dtype=float)
        dist = ExponentiatedWeibullDistribution(f_delta=delta) if delta is not None else ExponentiatedWeibullDistribution()
        try:
            dist.fit(data, method=method, weights=weights)
            nfits += 1
        except Exception as e:
            viol.append({"sig": {"check": "ewlsq", "clause": "exception", "wspec": wspec, "free_delta": delta is None},
                         "detail": {"type": type(e).__name__, "msg": str(e)[:200], "order": how}, "case": case})
            continue
        if not np.array_equal(np.array(data), data_in) or (w_in is not None and not np.array_equal(np.asarray(weights, dtype=float), w_in)):
            viol.append({"sig": {"check": "ewlsq", "clause": "input_mutated"}, "detail": {"order": how}, "case": case})
        results[how] = (float(dist.alpha), float(dist.beta), float(dist.delta))

    def bad(clause, detail):
        sig = {"check": "ewlsq", "clause": clause, "wspec": "array" if wspec.startswith("arr_") else wspec,
               "free_delta": delta is None}
        if not any(v["sig"] == sig for v in viol):
            viol.append({"sig": sig, "detail": detail, "case": case})

    for how, (a, b, d) in results.items():
        if not (np.isfinite(a) and np.isfinite(b) and np.isfinite(d) and a > 0 and b > 0 and d > 0):
            bad("inadmissible", {"order": how, "alpha": a, "beta": b, "delta": d})
            continue
        if delta is not None:
            if d != delta:
                bad("delta_changed", {"order": how, "delta": d})
            ra, rb = ref_alpha_beta(xs, wref, delta)
            if not (abs(a - ra) <= 1e-8 * ra and abs(b - rb) <= 1e-8 * rb):
                bad("not_regression_solution", {"order": how, "alpha": a, "beta": b, "ref_alpha": ra, "ref_beta": rb,
                                                "scale": scale})
        else:
            ra, rb = ref_alpha_beta(xs, wref, d)
            if not (np.isfinite(ra) and np.isfinite(rb)):
                bad("fitted_delta_degenerate", {"order": how, "alpha": a, "beta": b, "delta": d,
                                                "why": "the transformed plotting positions are not finite at the fitted delta"})
            elif not (abs(a - ra) <= 1e-8 * ra and abs(b - rb) <= 1e-8 * abs(rb)):
                bad("not_regression_solution", {"order": how, "alpha": a, "beta": b, "delta": d, "ref_alpha": ra,
                                                "ref_beta": rb, "scale": scale})
            else:
                e0 = xspace_error(xs, wref, d)
                # a descent direction: the error is lower at 1 % AND at 3 % on the same side (for small delta the objective
                # carries numerical noise of ~1 % from 1 - p^(1/delta); a single lower probe is not a descent direction)
                for sgn in (1.0, -1.0):
                    e1 = xspace_error(xs, wref, d * (1 + sgn * 1e-2))
                    e3 = xspace_error(xs, wref, d * (1 + sgn * 3e-2))
                    if e0 is None or e1 is None or e3 is None:
                        continue
                    if e1 * (1 + 1e-6) + 1e-300 < e0 and e3 * (1 + 1e-6) + 1e-300 < e0:
                        bad("delta_not_local_minimiser", {"order": how, "delta": d, "err": e0, "side": sgn, "err_at_1pct": e1, "err_at_3pct": e3})
                        break
    # order invariance (fixed delta: to round-off; free delta: optimiser tolerance)
    if "sorted" in results:
        a0, b0, d0 = results["sorted"]
        tol = 1e-8 if delta is not None else 2e-3
        for how, (a, b, d) in results.items():
            if not (abs(a - a0) <= tol * abs(a0) and abs(b - b0) <= tol * abs(b0) and abs(d - d0) <= tol * abs(d0)):
                bad("order_dependent", {"order": how, "got": [a, b, d], "sorted": [a0, b0, d0]})
    nontriv = 1 if (wspec != "none" or zeros or ties) else 0
    return {"viol": viol, "n": nfits, "nontrivial": nontriv,
            "outcomes": [f"{wspec}:{delta is None}:{len(viol)}"], "count": {"fits": nfits}}


def main(ctx):
    ctx.rule = ("complete product: sample source {EW, Weibull, log-normal} x n x number of exact zeros {0,1,3} x ties "
                "{no, rounded to 0.1} x weights {None, linear, quadratic, cubic, arrays x^2, 1/(1+x), irregular} x array "
                "scale x delta {fixed values, free} x method {lsq, wlsq}; each case fits the 4 data orders {sorted, "
                "reversed, 2 shuffles} with array weights travelling with their observations. evaluations = fits. "
                "Plus every sample size 5..64 and ALL multisets of 3..6 (7) observations over {0, .5, 1, 2, 3.5} with >= 3 distinct non-zero values. "
                "Non-trivial: weights not None, or zeros, or ties present.")
    ctx.assumptions = ["plotting positions are ranks in the full sample (zeros included), zeros are left out of the regression",
                       "irregular array weights are a function of the observation's value, so tied observations share weights"]
    ns = (30, 200, 5000) if ctx.quick else (30, 200, 5000, 20000)
    scales = (0.01, 1.0, 7.0, 1e3) if ctx.quick else (1e-6, 0.01, 1.0, 7.0, 1e3, 1e9)
    deltas = (0.5, 1.0, 2.35, 5.0, None) if ctx.quick else (0.3, 0.5, 1.0, 1.7, 2.35, 5.0, 9.0, None)
    cases = []
    for src, n, zeros, ties in itertools.product(("ew", "weibull", "lognormal"), ns, (0, 1, 3), (False, True)):
        for wspec in WSPECS:
            for scale in (scales if wspec.startswith("arr_") else (1.0,)):
                for delta in deltas:
                    for method in ("lsq", "wlsq"):
                        cases.append({"src": src, "n": n, "zeros": zeros, "ties": ties, "wspec": wspec, "scale": scale,
                                      "delta": delta, "method": method})
                        ctx.axis("wspec", wspec)
                        ctx.axis("delta", "free" if delta is None else delta)
    # every sample size from 5 to 64 (a defect tied to particular n, e.g. odd sizes or multiples)
    for n in range(5, 65):
        for wspec, delta in (("none", 2.35), ("quadratic", 2.35), ("arr_irregular", 1.0), ("quadratic", None)):
            cases.append({"src": "ew", "n": n, "zeros": n % 3 == 0 and 1 or 0, "ties": n % 2 == 0, "wspec": wspec, "scale": 7.0,
                          "delta": delta, "method": "wlsq"})
    # very small positive observations, and whole records in very small / large units
    for n in (30, 200):
        for zeros in (0, 1):
            for wspec in ("none", "arr_irregular", "arr_inv", "quadratic"):
                for delta in (1.0, 2.35, None):
                    cases.append({"src": "ew", "n": n, "zeros": zeros, "ties": False, "wspec": wspec, "scale": 1.0, "delta": delta, "method": "wlsq", "tiny": True})
                    for dsc in (1e-9, 1e-6, 1e6):
                        cases.append({"src": "ew", "n": n, "zeros": zeros, "ties": False, "wspec": wspec, "scale": 1.0, "delta": delta, "method": "wlsq",
                                      "data_scale": dsc})
    # integer-typed observations (float weights must stay float, keyword weights must be computed in float)
    for n in (30, 200):
        for zeros in (0, 1):
            for wspec in WSPECS:
                for scale in ((0.01, 1.0, 7.0) if wspec.startswith("arr_") else (1.0,)):
                    for delta in (1.0, 2.35, None):
                        for kind in ("array", "list"):
                            cases.append({"src": "ew", "n": n, "zeros": zeros, "ties": True, "wspec": wspec, "scale": scale, "delta": delta,
                                          "method": "wlsq", "int_data": kind})
    # ALL multisets of 3..6 (quick) / 3..7 (thorough) observations over the alphabet {0, 0.5, 1, 2, 3.5} with at least three distinct
    # non-zero values: every pattern of ties and exact zeros in a small sample
    alpha5 = (0.0, 0.5, 1.0, 2.0, 3.5)
    for size in range(3, 7 if ctx.quick else 8):
        for ms in itertools.combinations_with_replacement(alpha5, size):
            if len(set(v for v in ms if v > 0)) < 3:
                continue
            for wspec, delta in (("none", 1.0), ("quadratic", 2.35), ("arr_irregular", 2.35)):
                cases.append({"src": "alphabet", "n": size, "zeros": sum(1 for v in ms if v == 0), "ties": len(set(ms)) < size, "wspec": wspec,
                              "scale": 1.0, "delta": delta, "method": "wlsq", "data": list(ms), "orders": ["sorted", "reversed", "shuffle1"]})
    cases.sort(key=lambda c: -c["n"])
    ctx.pmap(cases, chunksize=8, label="ewlsq")
