"""C05 - cdf/icdf/pdf follow the documented formula and each other (lattice exploration vs mpmath reference)."""

import numpy as np
import mpmath as mp

from .. import zoo
from ..core import jsonable

PROPERTY = "C05"
LEVEL = "exploration"

P_X = [1e-6, 0.01, 0.25, 0.5, 0.9, 0.999]
P_ICDF = [0.0, 1e-12, 1e-6, 0.01, 0.5, 0.99, 1 - 1e-9, 1.0]
X_FIXED = [-1.0, 0.0, 1e-3, 1.0, 10.0, 100.0]
EPS = 2.220446049250313e-16
REL = 1e-9

KINDS = ("float", "npfloat", "list", "tuple", "ndarray")


def _conv(kind, xs):
    if kind == "list":
        return [float(v) for v in xs]
    if kind == "tuple":
        return tuple(float(v) for v in xs)
    return np.array(xs, dtype=float)


def _call(dist, method, kind, xs, args, kwargs):
    f = getattr(dist, method)
    if kind in ("float", "npfloat"):
        out = []
        for v in xs:
            a = float(v) if kind == "float" else np.float64(v)
            r = f(a, *args, **kwargs)
            if np.ndim(r) != 0:
                raise ValueError(f"scalar input gave result of shape {np.shape(r)}")
            out.append(float(r))
        return np.array(out)
    r = f(_conv(kind, xs), *args, **kwargs)
    r = np.asarray(r, dtype=float)
    if r.shape != (len(xs),):
        raise ValueError(f"result shape {r.shape} for {len(xs)} inputs")
    return r


def _mpf(v):
    return float(v) if mp.isfinite(v) else (float("inf") if v > 0 else float("-inf"))


def run_case(case):
    fam, th = case["family"], case["theta"]
    cls, names, roles = zoo.FAMILIES[fam]
    R = zoo.ref(fam, th)
    viol = []
    count = {}
    outcomes = set()
    worst = {"cdf": 0.0, "pdf": 0.0, "icdf": 0.0}

    def bad(method, clause, mode, detail, kind=None):
        sig = {"check": "dist", "family": fam, "method": method, "clause": clause, "mode": mode}
        if kind in ("list", "tuple") and clause == "exception":
            sig["kind"] = kind
        if len(viol) < 8 and not any(v["sig"] == sig for v in viol):
            d = dict(detail)
            d["kind"] = kind
            viol.append({"sig": sig, "detail": d, "case": case})
        count["viol"] = count.get("viol", 0) + 1

    is_vm = fam == "VonMisesDistribution"
    lower = -np.inf if is_vm else _mpf(R.lower)
    # ---- evaluation points
    xq = [_mpf(R.icdf(p)) for p in P_X]
    xs = list(xq) + X_FIXED
    if np.isfinite(lower):
        xs += [lower]
        if lower != 0:
            xs += [lower * (1 + 1e-9), lower * (1 - 1e-9)]
        else:
            xs += [1e-12, -1e-12]
    xs = sorted(set(float(v) for v in xs if np.isfinite(v)))
    spread = max(xq[4] - xq[2], 1e-300)

    ref_cdf = [R.cdf(x) for x in xs]
    ref_pdf = [R.pdf(x) for x in xs]
    ref_icdf = [R.icdf(p) for p in P_ICDF]
    # conditioning of icdf w.r.t. the float p
    icdf_tol = []
    for p, xr in zip(P_ICDF, ref_icdf):
        if p in (0.0, 1.0) or not mp.isfinite(xr):
            icdf_tol.append(0.0)
            continue
        d = 4 * EPS * max(p, 1e-300) if p < 0.5 else 2 * EPS
        lo, hi = R.icdf(mp.mpf(p) - d if p - d > 0 else mp.mpf(p) / 2), R.icdf(min(mp.mpf(p) + d, 1 - mp.mpf(10) ** -30))
        t = _mpf(abs(hi - lo))
        if fam == "VonMisesDistribution":  # scipy's von Mises cdf carries ~1e-13 absolute noise (library limit)
            fx = _mpf(R.pdf(xr))
            t += 1e-12 / fx if fx > 0 else float("inf")
        icdf_tol.append(t)

    const = zoo.make(fam, th)
    default = cls()
    modes = [("constructed", const, (), {}),
             ("explicit_kw", default, (), dict(th)),
             ("explicit_pos", default, tuple(th[n] for n in names), {})]
    # single-parameter overrides: instance differs in exactly that parameter
    for n, r in zip(names, roles):
        alt = [v for v in zoo.GRID[r] if v != th[n]][0]
        th2 = dict(th)
        th2[n] = alt
        modes.append((f"override:{n}", zoo.make(fam, th2), (), {n: th[n]}))
        # the same single override given POSITIONALLY, with None placeholders before it ("use the instance's value")
        k_ = names.index(n)
        if k_ > 0:
            modes.append((f"override_pos:{n}", zoo.make(fam, th2), tuple([None] * k_ + [th[n]]), {}))

    base = {}
    for mode, inst, args, kwargs in modes:
        for method, pts in (("cdf", xs), ("pdf", xs), ("icdf", P_ICDF)):
            for kind in KINDS:
                if kind in ("float", "npfloat") and mode not in ("constructed", "explicit_kw"):
                    continue
                count["calls"] = count.get("calls", 0) + 1
                try:
                    vals = _call(inst, method, kind, pts, args, kwargs)
                except RuntimeError as e:
                    if fam == "LogNormalNormFitDistribution" and mode.startswith("override") and "both or not at all" in str(e):
                        count["refused_lnnf_single_override"] = count.get("refused_lnnf_single_override", 0) + 1
                        continue
                    bad(method, "exception", mode, {"type": "RuntimeError", "msg": str(e)[:200]}, kind)
                    continue
                except Exception as e:
                    bad(method, "exception", mode, {"type": type(e).__name__, "msg": str(e)[:200]}, kind)
                    continue
                key = method
                if mode == "constructed" and kind == "ndarray":
                    base[key] = vals
                    _judge(fam, method, pts, vals, ref_cdf, ref_pdf, ref_icdf, icdf_tol, lower, is_vm, R, bad, worst, xs)
                else:
                    b = base.get(key)
                    if b is None:
                        continue
                    with np.errstate(all="ignore"):
                        diff = np.abs(vals - b)
                        ok = (diff <= 2e-15 * np.abs(b)) | (vals == b) | (np.isnan(vals) & np.isnan(b))
                    if not ok.all():
                        i = int(np.argmin(ok))
                        clause = "kind_vs_ndarray" if mode == "constructed" else "explicit_vs_constructed"
                        d = {"point": pts[i], "got": vals[i], "constructed": b[i]}
                        sigmode = mode
                        bad(method, clause, sigmode, d, kind)

    # ---- integer-valued arguments (int arrays / lists of ints) are values like any other
    xi = np.array([-1, 0, 1, 2, 3, 10])
    for method in ("cdf", "pdf"):
        try:
            gf = np.asarray(getattr(const, method)(xi.astype(float)), dtype=float)
            for kind, arg in (("int_ndarray", xi), ("int_list", xi.tolist()), ("int_scalar", None)):
                count["calls"] = count.get("calls", 0) + 1
                if kind == "int_scalar":
                    gi = np.array([float(getattr(const, method)(int(v))) for v in xi])
                else:
                    gi = np.asarray(getattr(const, method)(arg), dtype=float)
                with np.errstate(all="ignore"):
                    same = (gi == gf) | (np.abs(gi - gf) <= 2e-15 * np.abs(gf)) | (np.isnan(gi) & np.isnan(gf))
                if gi.shape != gf.shape or not same.all():
                    bad(method, "integer_argument_vs_float", "constructed", {"x": xi, "int": gi, "float": gf}, kind)
        except Exception as e:
            bad(method, "exception", "constructed", {"type": type(e).__name__, "msg": str(e)[:200], "integer_argument": True}, "int")
    # ---- integer-typed PARAMETER values (python int, numpy integer) at construction and as explicit overrides
    if case.get("int_params"):
        pts = [x for x in xs if x > (lower if np.isfinite(lower) else -np.inf)][:8]
        ref_i = {m: np.asarray(getattr(const, m)(np.array(pts if m != "icdf" else [0.1, 0.5, 0.9])), dtype=float) for m in ("cdf", "pdf", "icdf")}
        ith = {k: int(v) for k, v in th.items()}
        variants = [("constructed_pyint", cls(**ith), (), {}),
                    ("explicit_kw_pyint", cls(), (), ith),
                    ("explicit_pos_npint", cls(), tuple(np.int64(ith[n]) for n in names), {}),
                    ("explicit_kw_int_arrays", cls(), (), {k: np.array([v, v, v]) for k, v in ith.items()})]
        for mode, inst, args, kwargs in variants:
            for method in ("cdf", "pdf", "icdf"):
                arg = np.array(pts if method != "icdf" else [0.1, 0.5, 0.9])
                if mode == "explicit_kw_int_arrays":
                    arg = arg[:3]
                count["calls"] = count.get("calls", 0) + 1
                try:
                    got = np.asarray(getattr(inst, method)(arg, *args, **kwargs), dtype=float)
                except Exception as e:
                    bad(method, "exception", mode, {"type": type(e).__name__, "msg": str(e)[:200]}, "int_params")
                    continue
                exp = ref_i[method][:len(got)]
                with np.errstate(all="ignore"):
                    ok = (np.abs(got - exp) <= 2e-15 * np.abs(exp)) | (got == exp) | (np.isnan(got) & np.isnan(exp))
                if got.shape != exp.shape or not ok.all():
                    bad(method, "integer_parameters_vs_float", mode, {"theta": ith, "got": got[:3], "float_parameters": exp[:3]}, "int_params")
    # ---- mutual consistency of the implementation itself (constructed instance)
    if "cdf" in base and "pdf" in base:
        F, f = base["cdf"], base["pdf"]
        slack = 1e-12 if is_vm else 1e-15
        if np.any(np.diff(F) < -slack):
            i = int(np.argmax(np.diff(F) < -slack))
            bad("cdf", "not_monotone", "constructed", {"x": xs[i:i + 2], "F": F[i:i + 2]})
        if not is_vm and (np.any(F < 0) or np.any(F > 1)):
            bad("cdf", "outside_0_1", "constructed", {})
        if np.any(f < 0) or np.any(np.isnan(f[[x != lower for x in xs]])):
            bad("pdf", "negative_or_nan", "constructed", {"pdf": f})
        bulk = [i for i, x in enumerate(xs) if x in (xq[2], xq[3], xq[4])]
        # round trips in the well conditioned bulk + tails where conditioning allows
        for i, x in enumerate(xs):
            if not (1e-12 < F[i] < 1 - 1e-9) or f[i] <= 0 or (np.isfinite(lower) and x <= lower):
                continue
            if is_vm and not (float(R.lower) < x < float(R.upper)):
                continue
            tol = REL * max(abs(x), spread) + (1e-12 if is_vm else 1e-15) / f[i]
            if 1e-15 / f[i] > 1e-3 * spread:
                continue
            x2 = float(const.icdf(F[i]))
            count["roundtrip_x"] = count.get("roundtrip_x", 0) + 1
            if not abs(x2 - x) <= tol:
                bad("icdf", "icdf_of_cdf", "constructed", {"x": x, "icdf(cdf(x))": x2, "tol": tol})
        for i in bulk:
            x = xs[i]
            h = 1e-5 * (min(spread, x - lower) if np.isfinite(lower) else spread)
            if h <= 0:
                continue
            cd = (float(const.cdf(x + h)) - float(const.cdf(x - h))) / (2 * h)
            count["central_diff"] = count.get("central_diff", 0) + 1
            if not abs(cd - f[i]) <= 1e-6 * abs(f[i]) + 1e-9 / spread:
                bad("pdf", "pdf_vs_cdf_difference", "constructed", {"x": x, "pdf": f[i], "central_difference": cd})
    if "icdf" in base:
        X = base["icdf"]
        for p, x in zip(P_ICDF, X):
            if p in (0.0, 1.0) or not np.isfinite(x):
                continue
            p2 = float(const.cdf(x))
            # conditioning: the returned x is a rounded float, so F may move by F(x(1+-4eps)) (reference arithmetic)
            dx = 4 * EPS * abs(x)
            tol = (1e-7 * p + 1e-12 if is_vm else REL * p) + _mpf(abs(R.cdf(x + dx) - R.cdf(x - dx))) + 1e-300
            count["roundtrip_p"] = count.get("roundtrip_p", 0) + 1
            if not abs(p2 - p) <= tol:
                bad("cdf", "cdf_of_icdf", "constructed", {"p": p, "cdf(icdf(p))": p2, "tol": tol})
    outcomes.add(f"{fam}:{len(viol)}")
    nontriv = 1 if (float(ref_cdf[len(xs) // 2]) not in (0.0, 1.0)) else 0
    return {"viol": viol, "n": count.get("calls", 0), "nontrivial": nontriv, "outcomes": list(outcomes), "count": count,
            "worst": worst}


def _judge(fam, method, pts, vals, ref_cdf, ref_pdf, ref_icdf, icdf_tol, lower, is_vm, R, bad, worst, xs):
    # scipy.stats.vonmises.cdf is itself only accurate to ~2e-9 relative / 1e-13 absolute (kappa=30) in the tails
    # (measured against the Fourier series in mpmath); that is a library limit, not virocon's, hence the wider
    # band (1e-7 relative + 1e-12 absolute) for this family.
    REL = 1e-7 if is_vm else globals()["REL"]
    if method == "cdf":
        for x, v, r in zip(pts, vals, ref_cdf):
            r = float(r)
            if np.isfinite(lower) and x <= lower:
                if v != 0:
                    bad("cdf", "nonzero_left_of_support", "constructed", {"x": x, "cdf": v})
                continue
            err = abs(v - r)
            if r > 0:
                worst["cdf"] = max(worst["cdf"], err / r)
            if not err <= REL * abs(r) + (1e-12 if is_vm else 1e-300):
                bad("cdf", "formula", "constructed", {"x": x, "got": v, "reference": r})
    elif method == "pdf":
        for x, v, r in zip(pts, vals, ref_pdf):
            if np.isfinite(lower) and x < lower:
                if v != 0:
                    bad("pdf", "nonzero_outside_support", "constructed", {"x": x, "pdf": v})
                continue
            if np.isfinite(lower) and x == lower:
                continue  # density at the boundary point itself is a convention
            r = float(r) if mp.isfinite(r) else float("inf")
            err = abs(v - r)
            if r > 0 and np.isfinite(r):
                worst["pdf"] = max(worst["pdf"], err / r)
            if not (err <= REL * abs(r) + 1e-300 or v == r):
                bad("pdf", "formula", "constructed", {"x": x, "got": v, "reference": r})
    else:
        for p, v, r, t in zip(pts, vals, ref_icdf, icdf_tol):
            if is_vm and p in (0.0, 1.0):
                continue  # unrolled support: scipy returns -inf/inf, not demanded
            if not mp.isfinite(r):
                if not (v == float(r)):
                    bad("icdf", "formula_at_0_or_1", "constructed", {"p": p, "got": v, "reference": str(r)})
                continue
            r = float(r)
            err = abs(v - r)
            scale = max(abs(r), 1e-300)
            worst["icdf"] = max(worst["icdf"], max(err - t, 0) / scale)
            if not err <= REL * scale + t + 1e-300:
                clause = "formula_at_0_or_1" if p in (0.0, 1.0) else "formula"
                bad("icdf", clause, "constructed", {"p": p, "got": v, "reference": r, "tol_from_p": t})


def main(ctx):
    ctx.rule = ("complete product family x parameter grid (per role several orders of magnitude) x call mode "
                "{constructed, all explicit by keyword, all explicit positional, every single-parameter override} x "
                "method {cdf,pdf,icdf} x argument kind {float, numpy scalar, list, tuple, ndarray} x point grid "
                "(reference quantiles 1e-6..0.999, support boundary +-1e-9, -1, 0, 1e-3, 1, 10, 100). evaluations = "
                "method calls. A (family, theta) case is non-trivial if the reference cdf at the median grid point is "
                "strictly inside (0,1).")
    ctx.assumptions = ["mpmath (40 digits) closed forms as documented in the class docstrings are the reference",
                       "pdf at the exact support boundary point is not judged (convention)",
                       "von Mises: unrolled support, 'zero outside the support' not demanded"]
    cases = []
    for fam in zoo.FAMILIES:
        for th in zoo.theta_grid(fam, ctx.quick):
            if fam == "LogNormalNormFitDistribution" and th["sigma_norm"] > 20 * th["mu_norm"]:
                pass
            cases.append({"family": fam, "theta": th})
            ctx.axis("family", zoo.SHORT[fam])
        # one integer-valued parameter vector per family, passed as python ints / numpy integers / integer arrays
        cls_, names_, roles_ = zoo.FAMILIES[fam]
        ival = {"scale": 2.0, "shape": 2.0, "loc": 1.0, "mu": 1.0, "sigma": 2.0, "delta": 3.0, "kappa": 2.0, "lambda": 2.0,
                "mean": 3.0, "std": 2.0, "vmu": 1.0}
        cases.append({"family": fam, "theta": {n: ival[r] for n, r in zip(names_, roles_)}, "int_params": True})
    res = ctx.pmap(cases, label="dist")
    worst = {}
    for c, r in zip(cases, res):
        if r and "worst" in r:
            w = worst.setdefault(c["family"], {"cdf": 0, "pdf": 0, "icdf": 0})
            for k in w:
                w[k] = max(w[k], r["worst"][k])
    ctx.extra["worst_relative_error_vs_mpmath"] = worst
