"""C01 - IFORM/ISORM contours are the inverse-Rosenblatt image of the beta-sphere (lattice exploration)."""

import itertools

import mpmath as mp
import numpy as np
import scipy.special as sp

from virocon import IFORMContour, ISORMContour

from .. import zoo

PROPERTY = "C01"
LEVEL = "exploration"

ALL8 = ["WeibullDistribution", "LogNormalDistribution", "NormalDistribution", "ExponentiatedWeibullDistribution",
        "GeneralizedGammaDistribution", "VonMisesDistribution", "LogNormalNormFitDistribution", "GumbelR"]
CORE4 = ALL8[:4]
ALPHAS = [1e-8, 1e-5, 1e-3, 0.05, 0.4, 0.5]
EPS = 2.220446049250313e-16


def ref_beta(kind, alpha, n_dim):
    mp.mp.dps = 40
    from ..refdist import _phiinv
    a = mp.mpf(alpha)
    if kind == "IFORM":
        return float(_phiinv(1 - a))
    # chi2_n^-1(1-alpha): solve Q(n/2, x/2) = alpha (upper regularised gamma), bisection in mp
    lo, hi = mp.mpf(0), mp.mpf(200)
    f = lambda x: mp.gammainc(mp.mpf(n_dim) / 2, x / 2, mp.inf, regularized=True) - a
    for _ in range(200):
        mid = (lo + hi) / 2
        if f(mid) > 0:
            lo = mid
        else:
            hi = mid
    return float(mp.sqrt((lo + hi) / 2))


def u_of(model_dists, cond_on, X):
    X = np.asarray(X, dtype=float)
    U = np.empty_like(X)
    for i, d in enumerate(model_dists):
        c = cond_on[i]
        for r in range(len(X)):
            p = float(d.cdf(float(X[r, i]))) if c is None else float(d.cdf(float(X[r, i]), given=float(X[r, c])))
            U[r, i] = sp.ndtri(p)
    return U


def run_case(case):
    fams, cond_on, assign = case["fams"], case["cond_on"], case["assign"]
    n_dim = len(fams)
    viol = []
    n = 0
    nontriv = 0
    outcomes = set()
    worst = 0.0
    model, thetas = zoo.build_model(fams, cond_on, assign)
    # does the structure matter? (conditional cdf moves with the conditioner)
    for kind in case["kinds"]:
        cls = IFORMContour if kind == "IFORM" else ISORMContour
        for alpha in case["alphas"]:
            beta = ref_beta(kind, alpha, n_dim)
            for npts in case["n_points"]:
                sub = {"fams": fams, "cond_on": cond_on, "assign": assign, "kinds": [kind], "alphas": [alpha],
                       "n_points": [npts]}

                def bad(clause, detail):
                    sig = {"check": "rosenblatt", "contour": kind, "clause": clause, "n_dim": n_dim}
                    if not any(v["sig"] == sig for v in viol):
                        viol.append({"sig": sig, "detail": detail, "case": sub})

                try:
                    # alpha as the user may pass it: python float, or (every third case) a numpy scalar
                    a_in = np.float64(alpha) if (npts + n_dim) % 3 == 0 else alpha
                    c = cls(model, a_in, n_points=npts)
                except Exception as e:
                    bad("exception", {"type": type(e).__name__, "msg": str(e)[:200]})
                    continue
                n += 1
                X = np.asarray(c.coordinates, dtype=float)
                if X.shape != (npts, n_dim):
                    bad("shape", {"shape": list(X.shape), "expected": [npts, n_dim]})
                    continue
                if not np.all(np.isfinite(X)):
                    bad("non_finite", {"coordinates": X[:5]})
                    continue
                if not abs(float(c.beta) - beta) <= 1e-9 * max(1.0, beta):
                    bad("beta_attribute", {"beta": float(c.beta), "reference": beta})
                U = u_of(model.distributions, cond_on, X)
                r = np.linalg.norm(U, axis=1)
                tol = 1e-8 * max(1.0, beta) + 32 * EPS / float(mp.npdf(beta)) * np.sqrt(n_dim)
                err = float(np.max(np.abs(r - beta)))
                worst = max(worst, err / tol)
                if not err <= tol:
                    k = int(np.argmax(np.abs(r - beta)))
                    bad("radius", {"point": X[k], "u": U[k], "norm_u": r[k], "beta": beta, "tol": tol})
                    continue
                if beta > 1e-6:
                    D = U / beta
                    # pairwise distinct directions
                    G = D @ D.T
                    np.fill_diagonal(G, -1)
                    if np.max(G) > 1 - 1e-9:
                        i, j = np.unravel_index(np.argmax(G), G.shape)
                        bad("directions_not_distinct", {"i": int(i), "j": int(j), "u_i": U[i], "u_j": U[j]})
                    if n_dim == 2:
                        ang = np.arctan2(D[:, 1], D[:, 0]) % (2 * np.pi)
                        exp = 2 * np.pi * np.arange(npts) / npts
                        dang = np.abs((ang - exp + np.pi) % (2 * np.pi) - np.pi)
                        if np.max(dang) > 1e-6 + 4 * tol / beta:
                            k = int(np.argmax(dang))
                            bad("angles", {"k": k, "angle": ang[k], "expected": exp[k]})
                        if kind == "IFORM":
                            q = float(model.distributions[0].icdf(1 - alpha))
                            if not abs(np.max(X[:, 0]) - q) <= 1e-9 * abs(q) + tol * abs(q):
                                bad("max_first_variable", {"max_x0": float(np.max(X[:, 0])), "marginal_quantile": q})
                outcomes.add((kind, alpha, npts))
    # non-trivial: at least one conditional dimension whose cdf really moves with its conditioner
    moves = False
    for i, c in enumerate(cond_on):
        if c is None:
            continue
        d = model.distributions[i]
        x = float(d.icdf(0.5, given=1.0))
        if abs(float(d.cdf(x, given=0.2)) - float(d.cdf(x, given=3.0))) > 0.05:
            moves = True
    nontriv = n if moves else 0
    return {"viol": viol, "n": n, "nontrivial": nontriv, "outcomes": [str(o) for o in outcomes], "worst": worst}


def main(ctx):
    ctx.rule = ("complete product: n_dim 2: all 8x8 family pairs x both structures x dependence assignments; n_dim 3: core "
                "families^3 x all 6 structures; n_dim 4: 4 cyclic family assignments x all 24 structures; x alpha in "
                "{1e-8,1e-5,1e-3,.05,.4,.5} x n_points x {IFORM, ISORM}. evaluations = contours; non-trivial = the model "
                "has a conditional dimension whose cdf moves by > 0.05 with its conditioner.")
    ctx.assumptions = ["u computed with the model's own (conditional) cdfs row by row with scalar given, as the property is worded",
                       "radius tolerance 1e-8*max(1,beta) + 32 eps/phi(beta): conditioning of Phi^-1 near p=1"]
    q = ctx.quick
    cases = []
    kinds = ["IFORM", "ISORM"]
    np2 = [3, 7, 36] if q else [3, 4, 7, 36, 180]
    al2 = [1e-8, 1e-3, 0.4, 0.5] if q else ALPHAS
    for f0, f1 in itertools.product(ALL8, ALL8):
        for cond in ([None, None], [None, 0]):
            assigns = ["A"] if cond[1] is None else (["A"] if q else ["A", "B", "C"])
            for a in assigns:
                cases.append({"fams": [f0, f1], "cond_on": cond, "assign": a, "kinds": kinds, "alphas": al2, "n_points": np2})
    np3 = [4, 20] if q else [3, 4, 7, 36]
    al3 = [1e-8, 0.05] if q else ALPHAS
    triples = [tuple(CORE4[(i + k) % 4] for k in range(3)) for i in range(4)] if q else list(itertools.product(CORE4, repeat=3))
    for fams in triples:
        for cond in zoo.structures(3):
            cases.append({"fams": list(fams), "cond_on": cond, "assign": "A", "kinds": kinds, "alphas": al3, "n_points": np3})
    np4 = [5] if q else [3, 5, 12]
    al4 = [1e-5, 0.4] if q else [1e-8, 1e-5, 0.05, 0.4]
    quads = [[CORE4[(i + k) % 4] for k in range(4)] for i in range(4)]
    for fams in (quads[:1] if q else quads):
        for cond in zoo.structures(4):
            cases.append({"fams": fams, "cond_on": cond, "assign": "A", "kinds": kinds, "alphas": al4, "n_points": np4})
    # dense n_points sweep in 2-D (float-step angle generation etc. only fails for particular n_points)
    top = 361 if q else 1001
    for fams, cond in ((["WeibullDistribution", "LogNormalDistribution"], [None, 0]),
                       (["NormalDistribution", "GumbelR"], [None, None])):
        for kind in kinds:
            for lo in range(3, top, 20):
                cases.append({"fams": fams, "cond_on": cond, "assign": "A", "kinds": [kind], "alphas": [1e-3],
                              "n_points": list(range(lo, min(lo + 20, top)))})
    ctx.extra["n_points_sweep_2d"] = [3, top - 1]
    # small n_points sweep through the n-sphere code (3-D, 4-D)
    for fams, cond in ((CORE4[:3], [None, 0, 0]), (CORE4, [None, 0, 1, 0])):
        for kind in kinds:
            cases.append({"fams": list(fams), "cond_on": cond, "assign": "B", "kinds": [kind], "alphas": [1e-3],
                          "n_points": list(range(3, 9 if q else 25))})
    for c in cases:
        ctx.axis("n_dim", len(c["fams"]))
        ctx.axis("structure", str(c["cond_on"]))
    cases.sort(key=lambda c: -len(c["fams"]))
    res = ctx.pmap(cases, label="contours")
    ctx.extra["worst_radius_error_over_tolerance"] = max([r.get("worst", 0) for r in res if r] or [0])
