"""C02 - highest-density contour encloses the highest-density region of content 1-alpha (lattice exploration)."""

import itertools

import numpy as np

from .. import refhdr
from ..core import case_seed

PROPERTY = "C02"
LEVEL = "exploration"


def judge_region(model, cond, c, warned, alpha):
    """Returns (list of (clause, detail), info dict with P, region, ties)."""
    out = []
    centres = [np.asarray(a, dtype=float) for a in c.cell_center_coordinates]
    deltas = [float(d) for d in np.atleast_1d(c.deltas)] if np.ndim(c.deltas) else [float(c.deltas)] * len(centres)
    n = len(centres)
    for d in range(n):
        if len(centres[d]) > 1 and not np.allclose(np.diff(centres[d]), deltas[d], rtol=1e-9, atol=1e-12):
            out.append(("grid_spacing", {"dim": d, "delta": deltas[d], "spacing": float(np.diff(centres[d])[0])}))
            return out, None
    P = refhdr.cell_probabilities(model, cond, centres, deltas)
    vol = float(np.prod(deltas))
    # (i) documented cell probabilities
    f_impl = np.asarray(c.cell_averaged_joint_pdf(centres), dtype=float)
    if f_impl.shape != P.shape or not np.allclose(f_impl * vol, P, rtol=1e-8, atol=1e-14):
        k = np.unravel_index(np.argmax(np.abs(f_impl * vol - P)), P.shape) if f_impl.shape == P.shape else None
        out.append(("cell_probabilities", {"shape": list(f_impl.shape), "expected_shape": list(P.shape),
                                           "cell": None if k is None else [int(i) for i in k],
                                           "got": None if k is None else float(f_impl[k] * vol),
                                           "expected": None if k is None else float(P[k])}))
    dens = P / vol
    total = float(P.sum())
    fm = float(c.fm)
    info = {"P": P, "dens": dens, "centres": centres, "total": total, "fm": fm}
    should_warn = total < (1 - alpha)
    if abs(total - (1 - alpha)) < 1e-9:
        info["borderline"] = True
        return out, info
    if warned != should_warn:
        out.append(("warning_iff_unreachable", {"warned": warned, "total_probability": total, "one_minus_alpha": 1 - alpha}))
        return out, info
    if warned:
        if fm != 0:
            out.append(("fm_when_unreachable", {"fm": fm}))
        info["region"] = np.ones(P.shape, bool)
        info["ties"] = 0
        return out, info
    rel = 1e-10
    strict = dens > fm * (1 + rel)
    tie = np.abs(dens - fm) <= rel * fm
    if not tie.any():
        out.append(("fm_is_not_a_cell_density", {"fm": fm, "nearest": float(dens.flat[np.argmin(np.abs(dens - fm))])}))
        return out, info
    s_strict = float(P[strict].sum())
    lower = s_strict + float(P[tie].min())
    upper_region = strict | tie
    rest = ~upper_region
    s_upper = float(P[upper_region].sum())
    if not lower <= (1 - alpha) + 1e-12:
        out.append(("region_exceeds_content", {"sum": lower, "one_minus_alpha": 1 - alpha, "fm": fm}))
    if rest.any() and not s_upper + float(P[rest].max()) > (1 - alpha) - 1e-12:
        out.append(("region_too_small", {"sum": s_upper, "densest_excluded": float(P[rest].max()), "one_minus_alpha": 1 - alpha}))
    info["region"] = upper_region
    info["ties"] = int(tie.sum())
    return out, info


def grid_specs(n_dim, quick):
    if n_dim == 2:
        cells = [(40, 40), (120, 60), (30, 150), (200, 20)] if quick else [(10, 10), (40, 40), (200, 200), (120, 60), (30, 150), (200, 20), (40, 400)]
    else:
        cells = [(16, 16, 16), (30, 12, 20)] if quick else [(10, 10, 10), (24, 24, 24), (40, 16, 25), (12, 40, 30)]
    specs = [("cells", list(c)) for c in cells]
    specs.append(("scalar", 0.1 if n_dim == 2 else 0.4))
    specs.append(("scalar", 1))     # python int cell size on integer limits: integer-typed grid arrays
    return specs


def run_threshold_unit(case):
    """All arrays of a shape over a 3-value alphabet (so: ties everywhere) x limits at / between the partial sums, straight
    through HighestDensityContour.cumsum_biggest_until (the threshold search the contour uses): the summed cells hold at most
    `limit`, adding the densest excluded cell would exceed it, no excluded cell is denser than an enclosed one, and the
    reported value is the least dense enclosed one."""
    import itertools
    import warnings
    from virocon import HighestDensityContour
    shape = tuple(case["shape"])
    size = int(np.prod(shape))
    viol = []
    n = 0

    def bad(clause, detail):
        sig = {"check": "threshold_search", "clause": clause}
        if not any(v["sig"] == sig for v in viol):
            viol.append({"sig": sig, "detail": detail, "case": dict(case, only=detail.get("array"), only_limit=detail.get("limit"))})

    combos = [tuple(case["only"])] if case.get("only") else itertools.product((1, 2, 3), repeat=size)
    for vals in combos:
        a = (np.array(vals, dtype=float) * case["unit"]).reshape(shape)
        srt = np.sort(a.ravel())[::-1]
        cs = np.cumsum(srt)
        limits = sorted(set([float(c_) for c_ in cs] + [float(c_ + 0.4 * case["unit"]) for c_ in cs[:-1]] + [float(cs[-1] * 1.5)]))
        if case.get("only_limit") is not None:
            limits = [case["only_limit"]]
        for lim in limits:
            n += 1
            a_in = a.copy()
            with warnings.catch_warnings(record=True) as wl:
                warnings.simplefilter("always")
                try:
                    S, last = HighestDensityContour.cumsum_biggest_until(a, lim)
                except Exception as e:
                    bad("exception", {"array": list(vals), "limit": lim, "type": type(e).__name__, "msg": str(e)[:120]})
                    continue
            warned = any(issubclass(w.category, RuntimeWarning) for w in wl)
            if not np.array_equal(a, a_in):
                bad("input_mutated", {"array": list(vals), "limit": lim})
            S = np.asarray(S).astype(bool)
            tot = float(a.sum())
            if warned != (tot < lim - 1e-12) and abs(tot - lim) > 1e-12:
                bad("warning_iff_unreachable", {"array": list(vals), "limit": lim, "warned": warned, "total": tot})
            if S.shape != a.shape or not S.any():
                bad("no_cell_enclosed", {"array": list(vals), "limit": lim})
                continue
            s_in = float(a[S].sum())
            if s_in > lim + 1e-12:
                bad("region_exceeds_content", {"array": list(vals), "limit": lim, "sum": s_in})
            if (~S).any():
                if s_in + float(a[~S].max()) <= lim - 1e-12:
                    bad("region_too_small", {"array": list(vals), "limit": lim, "sum": s_in, "densest_excluded": float(a[~S].max())})
                if float(a[S].min()) < float(a[~S].max()):
                    bad("excluded_cell_denser_than_enclosed", {"array": list(vals), "limit": lim})
            if float(last) != float(a[S].min()):
                bad("reported_value_not_least_enclosed", {"array": list(vals), "limit": lim, "reported": float(last), "least_enclosed": float(a[S].min())})
    return {"viol": viol, "n": n, "nontrivial": n, "outcomes": [f"unit:{len(viol)}"], "count": {"threshold_search_calls": n}}


def run_case(case):
    if case.get("kind") == "threshold_unit":
        return run_threshold_unit(case)
    mname, alpha, lk, ds = case["model"], case["alpha"], case["limits"], tuple(case["deltas"])
    viol = []

    def bad(clause, detail):
        sig = {"check": "hdr", "clause": clause}
        if not any(v["sig"] == sig for v in viol):
            viol.append({"sig": sig, "detail": detail, "case": case})

    seed = case_seed(case, 0)
    try:
        model, cond, c, warned = refhdr.make_contour(mname, alpha, lk, (ds[0], ds[1]), seed)
    except Exception as e:
        bad("exception", {"type": type(e).__name__, "msg": str(e)[:300]})
        return {"viol": viol, "n": 1, "nontrivial": 0, "outcomes": ["exception"]}
    res, info = judge_region(model, cond, c, warned, alpha)
    for clause, detail in res:
        bad(clause, detail)
    nontriv = 0
    outc = "warned" if warned else "ok"
    if info is not None and not warned and info.get("region") is not None:
        nontriv = 1 if (0 < info["region"].sum() < info["region"].size) else 0
    elif warned:
        nontriv = 1
    return {"viol": viol, "n": 1, "nontrivial": nontriv, "outcomes": [outc + (":ties" if info and info.get("ties", 0) > 1 else "")],
            "count": {"warned_unreachable": int(warned), "anisotropic": int(ds[0] == "cells" and len(set(ds[1])) > 1)}}


def all_cases(ctx):
    q = ctx.quick
    cases = []
    alphas = [1e-6, 1e-4, 0.1, 0.3] if q else [1e-6, 1e-5, 1e-4, 1e-2, 0.1, 0.3]
    for mname, spec in refhdr.MODELS.items():
        n_dim = 2 if spec == "custom" else len(spec[0])
        for alpha in alphas:
            for lk in ("generous", "tight", "reversed"):
                for ds in grid_specs(n_dim, q):
                    if lk == "reversed" and ds[0] != "scalar" and ds[1] != grid_specs(n_dim, q)[0][1]:
                        continue
                    cases.append({"model": mname, "alpha": alpha, "limits": lk, "deltas": list(ds)})
            # grids whose total probability is within a few alpha of 1-alpha, on both sides
            if mname in ("w_ln", "ew_ew", "ln_normal", "w_ln_indep") and alpha <= 1e-2:
                for k in (0.5, 0.9, 1.1, 1.5, 3.0):
                    cases.append({"model": mname, "alpha": alpha, "limits": f"cut{k}", "deltas": ["cells", [150, 500]]})
            # default limits (Monte-Carlo quantile for conditional dims) with default and scalar deltas
            # (the default limits draw 5/(0.2^n alpha) samples: alpha is kept >= 1e-4 (2-D) / 1e-2 (3-D) for them)
            if n_dim == 2 and alpha >= 1e-4:
                cases.append({"model": mname, "alpha": alpha, "limits": "default", "deltas": ["none", None]})
                cases.append({"model": mname, "alpha": alpha, "limits": "default", "deltas": ["scalar", 0.1]})
            elif n_dim == 3 and not q and alpha >= 1e-2:
                cases.append({"model": mname, "alpha": alpha, "limits": "default", "deltas": ["scalar", 0.5]})
    return cases


def main(ctx):
    ctx.rule = ("complete product: model {5 two-dimensional incl. multi-modal von Mises over three periods, 3 "
                "three-dimensional structures} x alpha x limits {default (Monte-Carlo, global RNG seeded), generous, tight "
                "(cannot hold 1-alpha), reversed tuples, first-variable tail cut of k*alpha for k in .5,.9,1.1,1.5,3} x deltas {None, scalar, per-dimension lists isotropic and "
                "anisotropic up to ratio 10}. evaluations = contours; non-trivial = the region is a proper non-empty "
                "subset of the grid, or the RuntimeWarning case.")
    ctx.assumptions = ["grid read back from the object (cell_center_coordinates, deltas); probabilities recomputed with the "
                       "model's own cdfs by explicit loops with scalar given",
                       "exact density ties at fm are treated as a set of which the implementation may include any non-empty part; the tie behaviour itself is decided on the threshold search (cumsum_biggest_until) with all small arrays over a 3-value alphabet"]
    cases = all_cases(ctx)
    for c in cases:
        ctx.axis("model", c["model"])
        ctx.axis("limits", c["limits"])
    # the threshold search on its own: ALL arrays over a three-value alphabet (ties at every rank) x limits at and between
    # all partial sums (ties at the threshold never occur in the asymmetric models above)
    for shape in ([1], [2], [3], [4], [5], [2, 2], [2, 3], [2, 2, 2]) if ctx.quick else ([1], [2], [3], [4], [5], [6], [7], [2, 2], [2, 3], [3, 3], [2, 2, 2]):
        for unit in (0.05, 1.0 / 3.0, 1e-7):
            cases.append({"kind": "threshold_unit", "shape": shape, "unit": unit, "model": "threshold_unit", "limits": "n/a"})
            ctx.axis("model", "threshold_unit")
    ctx.pmap(cases, label="hdc")
