"""C07 - samples follow the model they are drawn from and are reproducible by seed (lattice exploration,
distribution-free finite-sample bands at error probability 1e-12 per comparison)."""

import itertools

import numpy as np

from virocon import DependenceFunction, GlobalHierarchicalModel

from .. import stats, zoo
from ..core import case_seed

PROPERTY = "C07"
LEVEL = "exploration"

SEEDS = [101, 202, 303]
CORE = ["WeibullDistribution", "LogNormalDistribution", "ExponentiatedWeibullDistribution", "NormalDistribution"]


def rs_of(kind, seed):
    if kind == "int":
        return seed
    if kind == "generator":
        return np.random.default_rng(seed)
    np.random.seed(seed)
    return None


def wrap(x, mu):
    return mu + ((np.asarray(x) - mu + np.pi) % (2 * np.pi)) - np.pi


def unif_of(fam, theta_arrays, x):
    """F(x) with explicit parameter arrays through a default template instance (explicit-parameter path, C05)."""
    cls = zoo.FAMILIES[fam][0]
    if fam == "VonMisesDistribution":
        mu = theta_arrays["mu"]
        xw = wrap(x, mu)
        p = np.asarray(cls().cdf(xw, **theta_arrays), dtype=float)
        return np.clip(p, 0.0, 1.0)
    return np.asarray(cls().cdf(x, **theta_arrays), dtype=float)


def run_univariate(case):
    fam, th, n = case["family"], case["theta"], case["n"]
    viol = []

    def bad(clause, detail):
        sig = {"check": "sample_univariate", "clause": clause, "family": fam}
        if not any(v["sig"] == sig for v in viol):
            viol.append({"sig": sig, "detail": detail, "case": case})

    d = zoo.make(fam, th)
    ncalls = 0
    seed = case.get("seed", SEEDS[0]) + (case.get("run_seed", 0) if case.get("seed", 1) else 0)
    for kind in ("int", "generator", "none"):
        try:
            s1 = np.asarray(d.draw_sample(n, random_state=rs_of(kind, seed)), dtype=float)
            s2 = np.asarray(d.draw_sample(n, random_state=rs_of(kind, seed)), dtype=float)
            s3 = np.asarray(d.draw_sample(n, random_state=rs_of(kind, seed + 1)), dtype=float)
        except Exception as e:
            bad("exception", {"type": type(e).__name__, "msg": str(e)[:160], "random_state": kind, "n": n})
            continue
        ncalls += 3
        if s1.shape != (n,):
            bad("shape", {"shape": list(s1.shape), "n": n, "random_state": kind})
            continue
        if not np.array_equal(s1, s2):
            bad("not_reproducible", {"random_state": kind})
        if n >= 10 and np.array_equal(s1, s3):
            bad("different_seeds_equal", {"random_state": kind})
        if kind == "generator":
            # ONE Generator used for two consecutive calls: the stream advances (second block differs) and the pair is
            # what an identically seeded Generator gives; n may be a numpy integer
            ga, gb = np.random.default_rng(seed), np.random.default_rng(seed)
            a1 = np.asarray(d.draw_sample(n, random_state=ga), dtype=float)
            a2 = np.asarray(d.draw_sample(np.int64(n), random_state=ga), dtype=float)
            b1 = np.asarray(d.draw_sample(n, random_state=gb), dtype=float)
            b2 = np.asarray(d.draw_sample(n, random_state=gb), dtype=float)
            ncalls += 4
            if not (np.array_equal(a1, s1) and np.array_equal(a1, b1) and a2.shape == b2.shape and np.array_equal(a2, b2)):
                bad("not_reproducible", {"random_state": "generator_used_twice"})
            if n >= 10 and a2.shape == a1.shape and np.array_equal(a1, a2):
                bad("generator_stream_not_advanced", {"n": n})
        if not np.all(np.isfinite(s1)):
            bad("non_finite", {})
            continue
        p = unif_of(fam, {k: np.full(n, v) for k, v in th.items()}, s1)
        dist = stats.sup_distance(p)
        eps = stats.dkw_eps(n)
        if dist > eps:
            bad("distribution", {"sup_distance": dist, "dkw_eps": eps, "n": n, "random_state": kind})
    return {"viol": viol, "n": ncalls, "nontrivial": 1 if n >= 1000 else 0, "outcomes": [f"{fam}:{n}:{len(viol)}"]}


def scalar_const(a):
    def f(x, a=a):
        return a  # a true scalar, also for vector x
    return f


def build_joint(case):
    fams, cond_on, assign = case["fams"], case["cond_on"], case["assign"]
    if case.get("scalar_leaf") is None:
        return zoo.build_model(fams, cond_on, assign)
    # last dimension: all dependent parameters are constant functions returning a python scalar
    model, thetas = zoo.build_model(fams, cond_on, assign)
    i = case["scalar_leaf"]
    fam = fams[i]
    cls, names, roles = zoo.FAMILIES[fam]
    deps = zoo.DEPENDENT[fam]
    fixed = {"f_" + nme: zoo.MID[fam][nme] for nme in names if nme not in deps}
    params = {nme: DependenceFunction(scalar_const(zoo.MID[fam][nme])) for nme in deps}
    descs = []
    for k, (f, c) in enumerate(zip(fams, cond_on)):
        if k == i:
            descs.append({"distribution": cls(**fixed), "conditional_on": c, "parameters": params})
        elif c is None:
            descs.append({"distribution": zoo.make(f, zoo.MID[f])})
        else:
            t, p, _ = zoo.cond_dim(f, assign)
            descs.append({"distribution": t, "conditional_on": c, "parameters": p})
    thetas = list(thetas)
    thetas[i] = (lambda g, fam=fam: dict(zoo.MID[fam]))
    return GlobalHierarchicalModel(descs), thetas


def run_joint(case):
    fams, cond_on, n = case["fams"], case["cond_on"], case["n"]
    n_dim = len(fams)
    viol = []

    def bad(clause, detail):
        sig = {"check": "sample_joint", "clause": clause}
        if case.get("scalar_leaf") is not None:
            sig["all_dependent_parameters_scalar"] = True
        if not any(v["sig"] == sig for v in viol):
            viol.append({"sig": sig, "detail": detail, "case": case})

    model, thetas = build_joint(case)
    seed = case.get("seed", SEEDS[1]) + case.get("run_seed", 0) * (1 if case.get("seed", 1) else 0)
    ncalls = 0
    moved = False
    for kind in ("int", "generator", "none"):
        try:
            S = np.asarray(model.draw_sample(n, random_state=rs_of(kind, seed)), dtype=float)
            S2 = np.asarray(model.draw_sample(n, random_state=rs_of(kind, seed)), dtype=float)
            S3 = np.asarray(model.draw_sample(n, random_state=rs_of(kind, seed + 1)), dtype=float)
        except Exception as e:
            bad("exception", {"type": type(e).__name__, "msg": str(e)[:160], "random_state": kind, "n": n})
            continue
        ncalls += 3
        if S.shape != (n, n_dim):
            bad("shape", {"shape": list(S.shape), "expected": [n, n_dim], "random_state": kind})
            continue
        if not np.array_equal(S, S2):
            bad("not_reproducible", {"random_state": kind})
        if n >= 10 and np.array_equal(S, S3):
            bad("different_seeds_equal", {"random_state": kind})
        if kind == "generator":
            ga, gb = np.random.default_rng(seed), np.random.default_rng(seed)
            A1 = np.asarray(model.draw_sample(n, random_state=ga), dtype=float)
            A2 = np.asarray(model.draw_sample(np.int64(n), random_state=ga), dtype=float)
            B1 = np.asarray(model.draw_sample(n, random_state=gb), dtype=float)
            B2 = np.asarray(model.draw_sample(n, random_state=gb), dtype=float)
            ncalls += 4
            if not (np.array_equal(A1, S) and np.array_equal(A1, B1) and A2.shape == B2.shape and np.array_equal(A2, B2)):
                bad("not_reproducible", {"random_state": "generator_used_twice"})
            if n >= 10 and A2.shape == A1.shape and np.array_equal(A1, A2):
                bad("generator_stream_not_advanced", {"n": n})
        if not np.all(np.isfinite(S)):
            bad("non_finite", {})
            continue
        # Rosenblatt transform with the DECLARED conditioning column and reference parameter functions
        U = np.empty_like(S)
        for i, (fam, c) in enumerate(zip(fams, cond_on)):
            if c is None:
                th = {k: np.full(n, v) for k, v in zoo.MID[fam].items()}
            else:
                g = S[:, c]
                cols = [thetas[i](float(v)) for v in (g if n <= 2000 else [])]
                if n <= 2000:
                    th = {k: np.array([t[k] for t in cols]) for k in cols[0]}
                else:
                    th = theta_vec(case, i, fam, g)
            U[:, i] = unif_of(fam, th, S[:, i])
        eps = stats.dkw_eps(n)
        for i in range(n_dim):
            dist = stats.sup_distance(U[:, i])
            if dist > eps:
                bad("component_distribution", {"dim": i, "family": fams[i], "conditional_on": cond_on[i], "sup_distance": dist,
                                               "dkw_eps": eps, "n": n, "random_state": kind})
                break
        else:
            if n >= 1000:
                w, e = stats.independence_3x3(np.clip(U, 0, 1 - 1e-15))
                if w > e:
                    bad("components_dependent", {"worst_cell_deviation": w, "hoeffding_eps": e, "n": n})
    # non-trivial: a conditional dimension whose cdf moves with its conditioner
    for i, c in enumerate(cond_on):
        if c is not None and case.get("scalar_leaf") != i:
            t0, t1 = thetas[i](0.2), thetas[i](3.0)
            if any(abs(t0[k] - t1[k]) > 1e-3 for k in t0):
                moved = True
    return {"viol": viol, "n": ncalls, "nontrivial": 1 if (moved and n >= 1000) else 0, "outcomes": [f"joint:{n}:{len(viol)}"]}


def theta_vec(case, i, fam, g):
    """Vectorised reference theta(g) (same raw shape functions as zoo.cond_dim)."""
    if case.get("scalar_leaf") == i:
        return {k: np.full(len(g), v) for k, v in zoo.MID[fam].items()}
    cls, names, roles = zoo.FAMILIES[fam]
    role = dict(zip(names, roles))
    deps = zoo.DEPENDENT[fam]
    th = {nme: np.full(len(g), zoo.MID[fam][nme]) for nme in names if nme not in deps}
    for nme, shape in zip(deps, zoo.ASSIGN[case["assign"]]):
        a, b = zoo.COEF[role[nme]]
        th[nme] = zoo.raw_shape(shape, g, a, b)
    return th


def run_case(case):
    if case["kind"] == "univariate":
        return run_univariate(case)
    return run_joint(case)


def main(ctx):
    ctx.rule = ("complete product: univariate: family (10) x 3 parameter points x n in {1,10,1000,1e5(,1e6)} x random_state {int, "
                "Generator, None with seeded global RNG}; joint: 2-D both structures x core family pairs (+ von Mises / Gumbel "
                "leaves), 3-D all 6 structures x 3 family triples incl. a von Mises leaf and a leaf whose dependent parameters are "
                "all scalar constants, n in {1,2,1000,1e5}; each drawn 3 times (seed s, s, s+1). evaluations = draw_sample "
                "calls; non-trivial = n >= 1000 and (joint) a conditional cdf that moves with its conditioner.")
    ctx.assumptions = ["DKW / Hoeffding bands at error probability 1e-12 per comparison (< 1e-7 per run)",
                       "Rosenblatt transform computed with the explicit-parameter path of the template (C05) and the raw "
                       "dependence shapes, using the declared conditioning column",
                       "VERIF_SEED shifts the library-side seeds"]
    q = ctx.quick
    cases = []
    for fam in zoo.FAMILIES:
        grid = list(zoo.theta_grid(fam, True))
        pts = [zoo.MID[fam], grid[0], grid[-1]]
        for th in pts:
            for n in ((1, 10, 1000, 100000) if q else (1, 10, 1000, 100000, 1000000)):
                cases.append({"kind": "univariate", "family": fam, "theta": th, "n": n, "run_seed": ctx.seed})
        cases.append({"kind": "univariate", "family": fam, "theta": zoo.MID[fam], "n": 1000, "seed": 0, "run_seed": 0})
    leaves = CORE + ["VonMisesDistribution", "GumbelR", "GeneralizedGammaDistribution", "LogNormalNormFitDistribution"]
    ns = (1, 2, 1000, 100000)
    for f0 in CORE:
        for f1 in leaves:
            for cond in ([None, None], [None, 0]):
                for assign in (("A",) if cond[1] is None else ("A", "B")):
                    for n in ns:
                        cases.append({"kind": "joint", "fams": [f0, f1], "cond_on": cond, "assign": assign, "n": n,
                                      "run_seed": ctx.seed})
    triples = [["WeibullDistribution", "LogNormalDistribution", "ExponentiatedWeibullDistribution"],
               ["LogNormalDistribution", "NormalDistribution", "VonMisesDistribution"],
               ["ExponentiatedWeibullDistribution", "WeibullDistribution", "LogNormalDistribution"]]
    for fams in triples:
        for cond in zoo.structures(3):
            for n in ((2, 1000, 100000) if q else ns):
                cases.append({"kind": "joint", "fams": fams, "cond_on": cond, "assign": "A", "n": n, "run_seed": ctx.seed})
    # the integer seed 0 is falsy in python: explicitly part of the alphabet (same-family pairs share their base variates)
    for f0, f1 in (("WeibullDistribution", "WeibullDistribution"), ("LogNormalDistribution", "NormalDistribution"),
                   ("ExponentiatedWeibullDistribution", "WeibullDistribution"), ("LogNormalDistribution", "LogNormalDistribution")):
        for cond in ([None, None], [None, 0]):
            cases.append({"kind": "joint", "fams": [f0, f1], "cond_on": cond, "assign": "A", "n": 100000, "seed": 0, "run_seed": 0})
    cases.append({"kind": "joint", "fams": triples[0], "cond_on": [None, 0, 1], "assign": "A", "n": 100000, "seed": 0, "run_seed": 0})
    # leaf with only scalar-constant dependence functions
    for fams, cond in ((["WeibullDistribution", "LogNormalDistribution"], [None, 0]),
                       (["WeibullDistribution", "LogNormalDistribution", "NormalDistribution"], [None, 0, 1])):
        for n in (2, 1000):
            cases.append({"kind": "joint", "fams": fams, "cond_on": cond, "assign": "A", "n": n, "scalar_leaf": len(fams) - 1,
                          "run_seed": ctx.seed})
    for c in cases:
        ctx.axis("kind", c["kind"])
        ctx.axis("n", c["n"])
    cases.sort(key=lambda c: -c["n"])
    ctx.pmap(cases, label="samples")
