"""C09 - joint fitting is order-invariant and fits each interval to exactly its own data.

A1: small scope, ALL 7! row orders of 7-row matrices (closed-form estimators, exact comparison).
A2: stated scope, fixed permutation family on 300..20000 rows, all slicers, 2-D/3-D, MLE/WLSQ, fit-description assignments.
A3: explicit-state search over fit / re-fit histories on the real model objects.
"""

import copy
import itertools

import numpy as np

from virocon import (DependenceFunction, ExponentiatedWeibullDistribution, GlobalHierarchicalModel, LogNormalDistribution,
                     NormalDistribution, NumberOfIntervalsSlicer, PointsPerIntervalSlicer, WeibullDistribution,
                     WidthOfIntervalSlicer)
from virocon.distributions import LogNormalNormFitDistribution

from .. import history

PROPERTY = "C09"
LEVEL = "model_checking"


def lin(x, a=1.0, b=0.0):
    return a + b * x


def mu_nested(x, a=1.0, b=0.2, sig_of_x=None):
    # log of a linear median minus half the squared sigma: depends on ANOTHER dependence function (as in the shipped OMAE2020 model)
    return np.log(a + b * x) - 0.5 * sig_of_x(x) ** 2


def make_slicer(spec):
    kind, arg, kw = spec
    kw = dict(kw)
    if "reference" in kw and kw["reference"] == "median":
        kw["reference"] = np.median
    if kind == "width":
        return WidthOfIntervalSlicer(arg, **kw)
    if kind == "number":
        return NumberOfIntervalsSlicer(arg, **kw)
    return PointsPerIntervalSlicer(arg, **kw)


TEMPLATES = {
    "normal": (lambda: NormalDistribution(), ("mu", "sigma")),
    "lognormal": (lambda: LogNormalDistribution(), ("mu", "sigma")),
    "lnnf": (lambda: LogNormalNormFitDistribution(), ("mu_norm", "sigma_norm")),
    "weibull": (lambda: WeibullDistribution(f_gamma=0.0), ("alpha", "beta")),
    # templates whose FIXED parameter precedes a dependent one in the parameter order
    "normal_fmu": (lambda: NormalDistribution(f_mu=1.0), ("sigma",)),
    "lognormal_fmu": (lambda: LogNormalDistribution(f_mu=0.5), ("sigma",)),
    "ew_fbeta": (lambda: ExponentiatedWeibullDistribution(f_beta=1.5), ("alpha", "delta")),
    "ew": (lambda: ExponentiatedWeibullDistribution(f_delta=2.0), ("alpha", "beta")),
    # the dependent parameter (mu) precedes the parameter whose dependence function it uses (sigma)
    "lognormal_nested": (lambda: LogNormalDistribution(), ("mu", "sigma")),
}
MARGINALS = {
    "lognormal": lambda: LogNormalDistribution(),
    "weibull": lambda: WeibullDistribution(f_gamma=0.0),
    "ew": lambda: ExponentiatedWeibullDistribution(),
    "normal": lambda: NormalDistribution(),
}
EXACT = {"normal", "lognormal", "lnnf", "normal_fmu"}


def build(spec):
    """spec: {"dims": [ {"marginal": name} | {"template": name, "on": j} ], "slicers": [slicer spec per dim]}"""
    descs = []
    shared = make_slicer(spec["slicers"][0]) if spec.get("shared_slicer_object") else None
    for d, sl in zip(spec["dims"], spec["slicers"]):
        if "marginal" in d:
            descs.append({"distribution": MARGINALS[d["marginal"]](), "intervals": shared or make_slicer(sl)})
        else:
            tmpl, pars = TEMPLATES[d["template"]]
            deps = {p: DependenceFunction(lin) for p in pars}
            if d["template"] == "lognormal_nested":
                deps["mu"] = DependenceFunction(mu_nested, bounds=[(0.05, None), (0.0, None)], sig_of_x=deps["sigma"])
            descs.append({"distribution": tmpl(), "conditional_on": d["on"], "intervals": shared or make_slicer(sl),
                          "parameters": deps})
    return GlobalHierarchicalModel(descs)


def snapshot(model):
    out = []
    for i, dist in enumerate(model.distributions):
        if model.conditional_on[i] is None:
            out.append({"params": np.array(list(dist.parameters.values()), dtype=float)})
        else:
            out.append({"cond_values": np.asarray(dist.conditioning_values, dtype=float),
                        "boundaries": np.asarray(dist.conditioning_interval_boundaries, dtype=float),
                        "per_interval": np.array([[p[k] for k in sorted(p)] for p in dist.parameters_per_interval], dtype=float),
                        "dep": np.array([list(dist.conditional_parameters[k].parameters.values()) for k in sorted(dist.conditional_parameters)], dtype=float),
                        "data": [np.sort(np.asarray(a, dtype=float)) for a in dist.data_intervals]})
    return out


def snap_equal(a, b, rtol):
    for i, (x, y) in enumerate(zip(a, b)):
        for k in x:
            if k == "data":
                if len(x[k]) != len(y[k]) or any(not np.array_equal(u, v) for u, v in zip(x[k], y[k])):
                    return False, (i, k)
            else:
                rt = max(rtol, 1e-6) if k == "dep" else rtol   # dependence functions are fitted iteratively (curve_fit)
                if np.shape(x[k]) != np.shape(y[k]) or not np.allclose(x[k], y[k], rtol=rt, atol=rt * 1e-3, equal_nan=True):
                    return False, (i, k)
    return True, None


def fit_model(spec, data, fit_desc):
    m = build(spec)
    fd = None if fit_desc is None else [None if f is None else dict(f) for f in fit_desc]
    m.fit(data, fd)
    return m


def check_per_interval(spec, model, data, fit_desc, rtol):
    """Each interval fitted to exactly its own observations with exactly its dimension's options."""
    out = []
    for i, d in enumerate(spec["dims"]):
        fdi = {"method": "mle", "weights": None} if (fit_desc is None or fit_desc[i] is None) else dict({"weights": None}, **fit_desc[i])
        if "marginal" in d:
            ref = MARGINALS[d["marginal"]]()
            ref.fit(data[:, i], fdi["method"], fdi["weights"])
            got = np.array(list(model.distributions[i].parameters.values()), dtype=float)
            exp = np.array(list(ref.parameters.values()), dtype=float)
            if not np.allclose(got, exp, rtol=rtol, atol=1e-12):
                out.append(("marginal_not_standalone_fit", {"dim": i, "got": got, "standalone": exp, "options": fdi}))
            continue
        j = d["on"]
        slicer = make_slicer(spec["slicers"][j])
        masks, refs, bnds = slicer.slice_(data[:, j])
        dist = model.distributions[i]
        if len(dist.data_intervals) != len(masks):
            out.append(("interval_count", {"dim": i, "got": len(dist.data_intervals), "expected": len(masks)}))
            continue
        if not np.allclose(np.asarray(dist.conditioning_values, dtype=float), np.asarray(refs, dtype=float), rtol=1e-12, atol=0):
            out.append(("conditioning_values_not_references", {"dim": i, "got": dist.conditioning_values, "references": refs}))
        tmpl, pars = TEMPLATES[d["template"]]
        est = []
        # the members of an interval have their conditioning value inside the interval's reported boundaries
        bl = np.asarray(dist.conditioning_interval_boundaries, dtype=float)
        for k, mk in enumerate(masks):
            cv_ = np.asarray(data[mk, j], dtype=float)
            if len(cv_) and bl.shape == (len(masks), 2) and not (np.all(cv_ >= bl[k, 0] - 1e-12 * max(1.0, abs(bl[k, 0]))) and np.all(cv_ <= bl[k, 1] + 1e-12 * max(1.0, abs(bl[k, 1])))):
                out.append(("interval_members_outside_reported_boundaries", {"dim": i, "interval": k, "boundaries": bl[k],
                                                                             "members_range": [float(cv_.min()), float(cv_.max())]}))
                break
        for k, mk in enumerate(masks):
            own = np.sort(data[mk, i])
            if not np.array_equal(np.sort(np.asarray(dist.data_intervals[k], dtype=float)), own):
                out.append(("interval_data_not_own_observations", {"dim": i, "interval": k, "n_got": len(dist.data_intervals[k]),
                                                                   "n_own": len(own)}))
                break
            ref = tmpl()
            ref.fit(data[mk, i], fdi["method"], fdi["weights"])
            exp = np.array([ref.parameters[p] for p in sorted(ref.parameters)], dtype=float)
            got = np.array([dist.parameters_per_interval[k][p] for p in sorted(dist.parameters_per_interval[k])], dtype=float)
            est.append(ref.parameters)
            if not np.allclose(got, exp, rtol=rtol, atol=1e-12, equal_nan=True):
                out.append(("interval_not_standalone_fit", {"dim": i, "interval": k, "got": got, "standalone": exp, "options": fdi}))
                break
        else:
            # dependence functions = independent linear least squares through (reference value, estimate)
            x = np.asarray(refs, dtype=float)
            A = np.c_[np.ones_like(x), x]
            for p in pars:
                y = np.array([e[p] for e in est], dtype=float)
                if not np.all(np.isfinite(y)) or (d["template"] == "lognormal_nested" and p == "mu"):
                    continue    # (the nested function is not linear in its coefficients: its optimality is C14's subject)
                sol, *_ = np.linalg.lstsq(A, y, rcond=None)
                got = np.array(list(dist.conditional_parameters[p].parameters.values()), dtype=float)
                if not np.allclose(got, sol, rtol=1e-5, atol=1e-7):
                    out.append(("dependence_function_not_lsq_of_estimates", {"dim": i, "param": p, "got": got, "lstsq": sol}))
                    break
    return out


def ties_straddle_chunks(spec, data):
    """True if for some conditional dimension sliced by a PointsPerIntervalSlicer two equal conditioning values are
    separated by a chunk boundary (then interval membership of the tied rows is not defined by the values)."""
    for i, d in enumerate(spec["dims"]):
        if "on" not in d:
            continue
        kind, arg, kw = spec["slicers"][d["on"]]
        if kind != "points":
            continue
        v = np.sort(data[:, d["on"]])
        n = len(v)
        rem = n % arg
        last_full = kw.get("last_full", True)
        cuts = list(range(rem, n, arg)) if (last_full and rem) else list(range(arg, n, arg))
        if any(0 < c < n and v[c - 1] == v[c] for c in cuts):
            return True
    return False


# ----------------------------------------------------------------------------------------- A1 small scope
SMALL_ROWS = np.array([[0.3, 1.1], [0.9, 1.4], [1.2, 0.8], [1.2, 2.0], [2.1, 1.7], [2.6, 2.4], [2.9, 1.9]])
SMALL_SLICERS = [("width", 1.0, {"min_n_points": 2, "min_n_intervals": 2}), ("width", 0.3, {"min_n_points": 2, "min_n_intervals": 2}),
                 ("number", 2, {"min_n_points": 2, "min_n_intervals": 2}), ("number", 3, {"min_n_points": 2, "min_n_intervals": 2}),
                 ("points", 2, {"min_n_points": 2, "min_n_intervals": 2}), ("points", 3, {"min_n_points": 2, "min_n_intervals": 2})]


def run_small(case):
    tname, sl = case["template"], tuple(case["slicer"])
    spec = {"dims": [{"marginal": "normal"}, {"template": tname, "on": 0}], "slicers": [list(sl), ("number", 2, {})]}
    rows = SMALL_ROWS if case.get("rows") is None else np.array(case["rows"])
    viol = []

    def bad(clause, detail, sub=None):
        sig = {"check": "order_invariance" if clause.startswith("order") else "per_interval", "clause": clause, "slicer": sl[0],
               "scope": "small"}
        if sl[0] == "points":
            sig["tied_values_straddle_chunk_boundary"] = ties_straddle_chunks(spec, rows)
        if not any(v["sig"] == sig for v in viol):
            viol.append({"sig": sig, "detail": detail, "case": sub or case})

    try:
        base = fit_model(spec, rows, None)
    except RuntimeError:
        return {"viol": [], "n": 0, "nontrivial": 0, "count": {"refused_too_few_intervals": 1}}
    s0 = snapshot(base)
    for clause, detail in check_per_interval(spec, base, rows, None, 1e-9):
        bad(clause, detail)
    n = 1
    perms = [tuple(case["perm"])] if case.get("perm") else itertools.permutations(range(len(rows)))
    for perm in perms:
        n += 1
        try:
            m = fit_model(spec, rows[list(perm)], None)
        except Exception as e:
            bad("order_changes_outcome", {"perm": perm, "exception": type(e).__name__},
                dict(case, perm=list(perm)))
            continue
        ok, where = snap_equal(s0, snapshot(m), 1e-9)
        if not ok:
            bad("order_dependent_fit", {"perm": perm, "differs_in": where}, dict(case, perm=list(perm)))
            break
    return {"viol": viol, "n": n, "nontrivial": n, "outcomes": [f"small:{tname}:{sl[0]}:{len(viol)}"]}


# ----------------------------------------------------------------------------------------- A2 stated scope
def big_data(n, n_dim, seed=21, rounded=True):
    rs = np.random.RandomState(seed)
    x0 = 2.0 * rs.weibull(1.5, n) + 0.05
    x1 = np.exp(0.3 + 0.25 * np.sqrt(x0) + (0.15 + 0.1 / (1 + x0)) * rs.normal(size=n))
    cols = [x0, x1]
    if n_dim == 3:
        cols.append((1.0 + 0.4 * x1) * rs.weibull(2.0, n) + 0.02)
    if not rounded:
        return np.column_stack(cols) + 0.05
    return np.round(np.column_stack(cols), 1) + 0.05  # rounded: ties; +0.05 keeps everything positive


def permutations_family(n):
    idx = np.arange(n)
    fam = {"reverse": idx[::-1], "interleave": np.concatenate([idx[::2], idx[1::2]]),
           "rot1": np.roll(idx, n // 3), "rot2": np.roll(idx, 2 * n // 3), "rot3": np.roll(idx, 7)}
    blocks = np.array_split(idx, 4)
    for k, order in enumerate(itertools.permutations(range(4))):
        if k == 0:
            continue
        fam[f"blocks{''.join(map(str, order))}"] = np.concatenate([blocks[b] for b in order])
    return fam


def run_big(case):
    spec, n, fit_desc = case["spec"], case["n"], case["fit"]
    n_dim = len(spec["dims"])
    data = big_data(n, n_dim, rounded=case.get("rounded", True))
    viol = []
    exact = all(("marginal" in d and d["marginal"] in ("lognormal", "normal")) or d.get("template") in EXACT for d in spec["dims"]) \
        and (fit_desc is None or all(f is None or f["method"] == "mle" for f in fit_desc))
    rtol = 1e-9 if exact else 2e-3
    slk = [s[0] for s in spec["slicers"]]

    def bad(clause, detail, **extra):
        # the slicer that matters is the one of the conditioning variable of the dimension that differs
        kind = slk[0]
        where = detail.get("differs_in")
        if where is not None and "on" in spec["dims"][where[0]]:
            kind = slk[spec["dims"][where[0]]["on"]]
        elif detail.get("dim") is not None and "on" in spec["dims"][detail["dim"]]:
            kind = slk[spec["dims"][detail["dim"]]["on"]]
        sig = {"check": "order_invariance" if clause.startswith("order") else "per_interval", "clause": clause,
               "slicer": kind, "scope": "large"}
        if kind == "points":
            sig["tied_values_straddle_chunk_boundary"] = ties_straddle_chunks(spec, data)
        sig.update(extra)
        if not any(v["sig"] == sig for v in viol):
            viol.append({"sig": sig, "detail": detail, "case": case})

    try:
        base = fit_model(spec, data, fit_desc)
    except RuntimeError as e:
        if "too few intervals" in str(e):
            return {"viol": [], "n": 1, "nontrivial": 0, "count": {"base_fit_refused_too_few_intervals": 1}}
        bad("fit_exception", {"type": "RuntimeError", "msg": str(e)[:160], "fit": fit_desc})
        return {"viol": viol, "n": 1, "nontrivial": 1}
    except Exception as e:
        # the description is valid (every dimension only gets options its family supports): fitting must not fail
        bad("fit_exception", {"type": type(e).__name__, "msg": str(e)[:160], "fit": fit_desc})
        return {"viol": viol, "n": 1, "nontrivial": 1}
    s0 = snapshot(base)
    for clause, detail in check_per_interval(spec, base, data, fit_desc, 1e-9 if exact else 1e-6):
        bad(clause, detail)
    n_fit = 1
    # the same data as list of lists and as pandas DataFrame (array-like, as in the documented workflow)
    import pandas as pd
    for kind, dd in (("list_of_lists", data.tolist()), ("dataframe", pd.DataFrame(data, columns=[f"v{i}" for i in range(n_dim)]))):
        n_fit += 1
        try:
            mk = fit_model(spec, dd, fit_desc)
            ok, where = snap_equal(s0, snapshot(mk), rtol)
            if not ok:
                bad("data_container_changes_fit", {"container": kind, "differs_in": where})
        except Exception as e:
            bad("fit_exception", {"type": type(e).__name__, "msg": str(e)[:160], "container": kind})
    fam = permutations_family(n)
    extra = {"asc0": np.argsort(data[:, 0], kind="stable"), "desc0": np.argsort(-data[:, 0], kind="stable"),
             "asc1": np.argsort(data[:, 1], kind="stable"), "desc1": np.argsort(-data[:, 1], kind="stable")}
    fam.update(extra)
    names = case.get("perms") or list(fam)
    for name in names:
        n_fit += 1
        try:
            m = fit_model(spec, data[fam[name]], fit_desc)
        except Exception as e:
            bad("order_changes_outcome", {"perm": name, "exception": type(e).__name__, "msg": str(e)[:100]})
            continue
        ok, where = snap_equal(s0, snapshot(m), rtol)
        if not ok:
            bad("order_dependent_fit", {"perm": name, "differs_in": where, "rtol": rtol})
            break
    return {"viol": viol, "n": n_fit, "nontrivial": n_fit, "outcomes": [f"big:{len(viol)}"]}


# ----------------------------------------------------------------------------------------- A3 histories
def run_history(case):
    spec = case["spec"]
    n_dim = len(spec["dims"])
    D = {1: big_data(600, n_dim, seed=31), 2: big_data(700, n_dim, seed=32) * np.array([1.2, 0.9, 1.1][:n_dim])}
    shuffles = {"id": lambda a: a, "shuffled": lambda a: a[np.random.RandomState(5).permutation(len(a))]}
    events = [(a, b) for a in (1, 2) for b in ("id", "shuffled")]
    fresh = {a: snapshot(fit_model(spec, D[a], case["fit"])) for a in (1, 2)}

    def build_state(hist):
        m = build(spec)
        m._vmc_error = None
        for a, b in hist:
            fd = None if case["fit"] is None else [None if f is None else dict(f) for f in case["fit"]]
            try:
                m.fit(shuffles[b](D[a]), fd)
            except Exception as e:   # a (re-)fit with valid data must not fail; reported by check()
                m._vmc_error = f"{type(e).__name__}: {str(e)[:120]}"
                break
        return m

    def enabled(hist, st):
        return events

    def canon(m):
        if getattr(m, "_vmc_error", None):
            return "error:" + m._vmc_error
        try:
            return history.digest(snapshot(m), digits=6)
        except Exception:
            return "unfitted"

    def check(hist, ev, prev, st):
        if getattr(st, "_vmc_error", None):
            return [{"sig": {"check": "refit", "clause": "refit_raises", "slicer": spec["slicers"][0][0]},
                     "detail": {"history": hist + [ev], "error": st._vmc_error}, "case": case}]
        ok, where = snap_equal(fresh[ev[0]], snapshot(st), 2e-3 if not case["exact"] else 1e-9)
        if ok:
            return []
        sg = {"check": "refit", "clause": "state_after_refit_differs_from_fresh_fit", "slicer": spec["slicers"][0][0]}
        if spec["slicers"][0][0] == "points":
            sg["tied_values_straddle_chunk_boundary"] = ties_straddle_chunks(spec, D[ev[0]])
        return [{"sig": sg,
                 "detail": {"history": hist + [ev], "differs_in": where}, "case": case}]

    res = history.bfs(build_state, enabled, canon, check, max_depth=case["depth"])
    return {"viol": res["violations"][:2], "n": res["traces"], "nontrivial": res["transitions"],
            "outcomes": [f"hist:states={res['states']}:closed={res['closed']}"],
            "mc": {"states": res["states"], "transitions": res["transitions"], "traces": res["traces"]},
            "closed": res["closed"], "samples": res["samples"]}


def run_case(case):
    k = case["kind"]
    if k == "small":
        return run_small(case)
    if k == "big":
        return run_big(case)
    return run_history(case)


SPECS_2D = [
    {"dims": [{"marginal": "lognormal"}, {"template": "normal", "on": 0}]},
    {"dims": [{"marginal": "lognormal"}, {"template": "lnnf", "on": 0}]},
    {"dims": [{"marginal": "ew"}, {"template": "lognormal", "on": 0}]},
    {"dims": [{"marginal": "lognormal"}, {"template": "ew", "on": 0}]},
    {"dims": [{"marginal": "weibull"}, {"template": "weibull", "on": 0}]},
    {"dims": [{"marginal": "lognormal"}, {"template": "normal_fmu", "on": 0}]},
    {"dims": [{"marginal": "lognormal"}, {"template": "lognormal_fmu", "on": 0}]},
    {"dims": [{"marginal": "lognormal"}, {"template": "ew_fbeta", "on": 0}]},
    {"dims": [{"marginal": "weibull"}, {"template": "lognormal_nested", "on": 0}]},
]
SPECS_3D = [
    {"dims": [{"marginal": "lognormal"}, {"template": "lognormal", "on": 0}, {"template": "normal", "on": 1}]},
    {"dims": [{"marginal": "lognormal"}, {"template": "lognormal", "on": 0}, {"template": "lnnf", "on": 0}]},
    {"dims": [{"marginal": "ew"}, {"template": "lognormal", "on": 0}, {"template": "ew", "on": 1}]},
]
BIG_SLICERS = [("width", 0.5, {"min_n_points": 20}), ("width", 0.3, {"min_n_points": 20, "right_open": False, "reference": "left"}),
               ("number", 6, {"min_n_points": 20}), ("number", 5, {"min_n_points": 20, "include_max": False, "reference": "median"}),
               ("points", 60, {}), ("points", 75, {"last_full": False, "min_n_points": 30}),
               # an explicit range that ends below the largest observation (and starts above the smallest)
               ("number", 4, {"min_n_points": 20, "value_range": (0.4, 3.2)}), ("width", 0.6, {"min_n_points": 20, "value_range": (0.4, 3.2)})]


def fit_variants(spec):
    """fit-description assignments: every dimension that supports least squares gets every option."""
    opts = []
    for d in spec["dims"]:
        name = d.get("marginal") or d.get("template")
        if name in ("ew", "ew_fbeta") and name == "ew":
            opts.append([None, {"method": "mle"}, {"method": "wlsq", "weights": "quadratic"}, {"method": "wlsq"}])
        else:
            opts.append([None, {"method": "mle"}])
    allv = list(itertools.product(*opts))
    out = [None]
    for v in allv:
        if any(f is not None for f in v):
            out.append(list(v))
    return out


def main(ctx):
    ctx.rule = ("A1: 4 closed-form templates (one with a leading fixed parameter) x 6 slicer settings x ALL 7! = 5040 row orders of a 7-row matrix with ties (exact "
                "comparison 1e-9). A2: 9 two-dimensional (3 of them with a fixed parameter that precedes a dependent one, 1 with a dependence function nested in another) + 3 three-dimensional structures x 8 slicer settings (two with an explicit value_range inside the data range) x n in {300, 2000(, "
                "20000)} x every fit-description assignment x a fixed family of 32 row permutations (reverse, interleave, rotations, "
                "all 23 non-identity orders of four blocks, ascending/descending by column). A3: explicit-state BFS over histories "
                "of fit(D_a, order_b) events on the real model. evaluations = model fits.")
    ctx.assumptions = ["closed-form estimators compared to 1e-9 (summation order), optimiser-based ones to 2e-3 (optimiser tolerance)",
                       "the slicer itself is the reference for interval membership (its partition property is C10)"]
    q = ctx.quick
    cases = []
    for t in ("normal", "lognormal", "lnnf", "normal_fmu"):
        for sl in SMALL_SLICERS:
            cases.append({"kind": "small", "template": t, "slicer": list(sl)})
    ns = (300, 2000) if q else (300, 2000, 20000)
    for spec in SPECS_2D + SPECS_3D:
        for sl in BIG_SLICERS:
            for n in ns:
                if sl[0] == "points" and n == 300 and sl[1] > 60:
                    continue
                # every dimension gets its OWN slicer setting (the one of a conditioning variable is what matters): a model that
                # picks the slicer of the wrong dimension is then visible
                k0 = BIG_SLICERS.index(sl)
                sp = dict(spec, slicers=[list(BIG_SLICERS[(k0 + 2 * j) % len(BIG_SLICERS)]) if j else list(sl) for j in range(len(spec["dims"]))])
                fvs = fit_variants(spec)
                if q:   # quick: default, weighted least squares on every dimension that supports it (others None / mle)
                    names_ = [d.get("marginal") or d.get("template") for d in spec["dims"]]
                    wl = [({"method": "wlsq", "weights": "quadratic"} if nm == "ew" else None) for nm in names_]
                    wl2 = [({"method": "wlsq", "weights": "quadratic"} if nm == "ew" else {"method": "mle"}) for nm in names_]
                    fvs = [None] + ([wl, wl2] if any(w is not None for w in wl) else [[{"method": "mle"}] * len(names_)])
                for fv in fvs:
                    big = {"kind": "big", "spec": sp, "n": n, "fit": fv}
                    if q or n == 20000:
                        big["perms"] = ["reverse", "interleave", "rot1", "blocks2031", "asc0", "desc1"]
                    cases.append(big)
                    if sl[0] == "points":   # the same without ties (continuous values): membership is then well defined
                        cases.append(dict(big, rounded=False))
    # one and the same slicer OBJECT handed to every dimension (a user may well re-use it)
    for spec in SPECS_3D:
        for sl in (BIG_SLICERS[0], BIG_SLICERS[2]):
            cases.append({"kind": "big", "spec": dict(spec, slicers=[list(sl)] * 3, shared_slicer_object=True), "n": 2000, "fit": None,
                          "perms": ["reverse", "blocks2031"]})
    for spec, exact in ((SPECS_2D[0], True), (SPECS_2D[2], False), (SPECS_3D[0], True), (SPECS_2D[8], False)):
        for sl in (BIG_SLICERS[0], BIG_SLICERS[4]):
            cases.append({"kind": "history", "spec": dict(spec, slicers=[list(sl)] * len(spec["dims"])), "fit": None,
                          "exact": exact, "depth": 2 if q else 3})
    for c in cases:
        ctx.axis("kind", c["kind"])
    cases.sort(key=lambda c: -(c.get("n", 0)))
    res = ctx.pmap(cases, label="jointfit")
    for r in res:
        if r and r.get("samples"):
            ctx.sample({"refit_histories": r["samples"][:2]}, force=True)
            break
    ctx.extra["history_search_closed"] = all(r.get("closed", True) for r in res if r)
