"""C20 - exported, plotted and loaded data are exactly the computed / stored values (lattice exploration)."""

import itertools
import os
import shutil
import tempfile
import warnings

import numpy as np

from .. import zoo
from ..core import case_seed

PROPERTY = "C20"
LEVEL = "exploration"

SEMANTICS = {
    "none": None,
    "plain": {"names": ["Significant wave height", "Zero-up-crossing period", "Wind speed"], "symbols": ["H_s", "T_z", "V"],
              "units": ["m", "s", "m/s"]},
    "semicolon": {"names": ["Height; significant", "Period"], "symbols": ["H_s", "T_z"], "units": ["m", "s"]},
    "blanks": {"names": ["  wave  height ", "period"], "symbols": ["H s", "T z"], "units": ["m ", " s"]},
    "nonascii": {"names": ["Wellenhöhe", "Période"], "symbols": ["H_s", "T_z"], "units": ["m", "µs"]},
    "percent": {"names": ["steepness 100%", "rate"], "symbols": ["s", "r"], "units": ["%", "%/h"]},
}
PATHS = ["contour", "contour.txt", "contour.csv", "dir.v1/contour", "a.b", "sub/deep/name.dat"]


def model2():
    return zoo.build_model(["WeibullDistribution", "LogNormalDistribution"], [None, 0], "A")[0]


def model3():
    return zoo.build_model(["WeibullDistribution", "LogNormalDistribution", "ExponentiatedWeibullDistribution"], [None, 0, 1], "A")[0]


def make_contour(kind):
    from virocon import (AndContour, DirectSamplingContour, HighestDensityContour, IFORMContour, ISORMContour, OrContour)
    if kind == "iform":
        return IFORMContour(model2(), 0.01, n_points=24)
    if kind == "iform_3pts":
        return IFORMContour(model2(), 0.05, n_points=3)
    if kind == "iform_negative":    # coordinates with negative and large values
        from virocon import GlobalHierarchicalModel, NormalDistribution
        m = GlobalHierarchicalModel([{"distribution": NormalDistribution(-2500.0, 300.0)}, {"distribution": NormalDistribution(0.0, 0.001)}])
        return IFORMContour(m, 1e-3, n_points=10)
    if kind == "isorm":
        return ISORMContour(model2(), 0.01, n_points=24)
    if kind == "hdc":
        return HighestDensityContour(model2(), 0.1, limits=[(0, 8), (0, 10)], deltas=[0.2, 0.25])
    if kind == "hdc_multi":
        m = zoo.build_model(["WeibullDistribution", "VonMisesDistribution"], [None, 0], "A")[0]
        return HighestDensityContour(m, 0.3, limits=[(0, 6), (-3.5, 12.5)], deltas=[0.2, 0.2])
    if kind in ("ds", "and", "or"):
        m = model2()
        S = m.draw_sample(2000, random_state=5)
        np.random.seed(3)
        if kind == "ds":
            return DirectSamplingContour(m, 0.05, deg_step=10, sample=S)
        if kind == "and":
            return AndContour(m, 0.05, deg_step=10, sample=S, allowed_error=0.05)
        return OrContour(m, 0.05, deg_step=10, sample=S, allowed_error=0.05)
    if kind == "iform3":
        return IFORMContour(model3(), 0.01, n_points=12)
    if kind == "hdc3":
        return HighestDensityContour(model3(), 0.2, limits=[(0, 6), (0, 8), (0, 8)], deltas=[0.5, 0.5, 0.5])
    raise ValueError(kind)


def as_float(coords):
    return np.array([[float(np.asarray(v).reshape(-1)[0]) for v in row] for row in coords], dtype=float)


# --------------------------------------------------------------------------------------------- save
def check_save(case, bad):
    from virocon import save_contour_coordinates
    c = make_contour(case["contour"])
    n = 0
    refused = case.setdefault("_refused", [0])
    tmp = tempfile.mkdtemp(prefix="vmc_c20_")
    try:
        for sname, pth in itertools.product(case["semantics"], case["paths"]):
            sem = SEMANTICS[sname]
            coords = c.coordinates
            if isinstance(coords, list):
                n_dim = len(coords[0])
            else:
                n_dim = coords.shape[1]
            if sem is not None and len(sem["names"]) < n_dim:
                continue
            n += 1
            full = os.path.join(tmp, f"{sname}_{n}", pth)
            os.makedirs(os.path.dirname(full), exist_ok=True)
            sub = dict(case, semantics=[sname], paths=[pth])
            try:
                save_contour_coordinates(c, full, sem)
            except Exception as e:
                if isinstance(coords, list):
                    # a multi-region HDC has no (N, n_dim) coordinate array; the property's row statement presupposes one.
                    # An exception is a refusal here (counted), a written file is judged like any other.
                    refused[0] += 1
                    continue
                bad("save", "exception", {"type": type(e).__name__, "msg": str(e)[:200], "contour": case["contour"]}, sub,
                    contour=case["contour"])
                continue
            root, ext = os.path.splitext(full)
            expect = full if ext else full + ".txt"
            if not os.path.isfile(expect):
                bad("save", "file_not_at_documented_path", {"expected": os.path.relpath(expect, tmp), "present": os.listdir(os.path.dirname(full))}, sub)
                continue
            others = [f for f in os.listdir(os.path.dirname(full)) if os.path.join(os.path.dirname(full), f) != expect]
            if others:
                bad("save", "unexpected_extra_files", {"files": others}, sub)
            with open(expect, encoding="utf-8") as f:
                lines = f.read().split("\n")
            if lines and lines[-1] == "":
                lines = lines[:-1]
            from virocon.plotting import get_default_semantics
            s2 = sem if sem is not None else get_default_semantics(n_dim)
            header = ";".join(f"{s2['names'][d]} ({s2['units'][d]})" for d in range(n_dim))
            if lines[0] != header:
                bad("save", "header", {"got": lines[0], "expected": header}, sub)
            X = as_float(coords)
            if len(lines) - 1 != len(X):
                bad("save", "row_count", {"rows": len(lines) - 1, "points": len(X)}, sub)
                continue
            try:
                P = np.array([[float(v) for v in ln.split(";")] for ln in lines[1:]])
            except ValueError as e:
                bad("save", "unparsable_row", {"msg": str(e)[:200]}, sub)
                continue
            if P.shape != X.shape or not np.all(np.abs(P - X) <= 5.0000001e-7):
                bad("save", "values", {"max_abs_diff": float(np.max(np.abs(P - X))) if P.shape == X.shape else None,
                                       "shape": list(P.shape)}, sub)
    finally:
        shutil.rmtree(tmp, ignore_errors=True)
    return n


# --------------------------------------------------------------------------------------------- plot_2D_contour
def check_plot_contour(case, bad):
    import matplotlib
    matplotlib.use("Agg")
    import matplotlib.pyplot as plt
    from virocon import calculate_design_conditions, plot_2D_contour
    c = make_contour(case["contour"])
    X = as_float(c.coordinates)
    S = model2().draw_sample(50, random_state=2)
    n = 0
    for swap, skind, dkind, axkind in itertools.product((False, True), ("none", "array", "list"),
                                                         ("none", "true", "ndarray", "list"), ("none", "given")):
        n += 1
        sub = dict(case, combo=[swap, skind, dkind, axkind])
        if case.get("combo") and case["combo"] != [swap, skind, dkind, axkind]:
            n -= 1
            continue
        sample = None if skind == "none" else (S if skind == "array" else S.tolist())
        dc_in = np.array([[1.0, 2.0], [1.5, 2.5], [2.0, 3.0]])
        dc = None if dkind == "none" else (True if dkind == "true" else (dc_in if dkind == "ndarray" else dc_in.tolist()))
        fig = None
        try:
            if axkind == "given":
                fig, ax_in = plt.subplots()
            else:
                ax_in = None
            ret = plot_2D_contour(c, sample=sample, design_conditions=dc, swap_axis=swap, ax=ax_in)
        except Exception as e:
            bad("plot_contour", "exception", {"type": type(e).__name__, "msg": str(e)[:160], "design_conditions": dkind,
                                              "contour": case["contour"]}, sub,
                design_conditions=dkind if dkind in ("ndarray", "list") else "other", contour=case["contour"] if case["contour"] == "or" else "any")
            plt.close("all")
            continue
        ax = ret[0] if isinstance(ret, tuple) else ret
        if (dc is None) != (not isinstance(ret, tuple)):
            bad("plot_contour", "return_value", {"type": type(ret).__name__, "design_conditions": dkind}, sub)
        if ax_in is not None and ax is not ax_in:
            bad("plot_contour", "axes_not_used", {}, sub)
        xi, yi = (1, 0) if swap else (0, 1)
        ex = np.append(X[:, xi], X[0, xi])
        ey = np.append(X[:, yi], X[0, yi])
        lines = ax.get_lines()
        ok = False
        for ln in lines:
            lx, ly = np.asarray(ln.get_xdata(), dtype=float), np.asarray(ln.get_ydata(), dtype=float)
            if lx.shape == ex.shape and np.array_equal(lx, ex) and np.array_equal(ly, ey):
                ok = True
        if not ok:
            got = None if not lines else [np.asarray(lines[0].get_xdata(), dtype=float)[:4], np.asarray(lines[0].get_ydata(), dtype=float)[:4]]
            bad("plot_contour", "polyline", {"n_lines": len(lines), "first_points_drawn": got, "expected_first": [ex[:4], ey[:4]],
                                             "n_expected": len(ex), "swap_axis": swap}, sub)
        offs = [np.asarray(col.get_offsets(), dtype=float) for col in ax.collections]
        if sample is not None:
            es = np.c_[S[:, xi], S[:, yi]]
            if not any(o.shape == es.shape and np.array_equal(o, es) for o in offs):
                bad("plot_contour", "sample_scatter", {"swap_axis": swap}, sub)
        if dc is not None:
            if dkind == "true":
                edc = np.asarray(calculate_design_conditions(c, swap_axis=swap), dtype=float)
            else:
                edc = dc_in
            if not any(o.shape == edc.shape and np.allclose(o, edc, rtol=0, atol=0) for o in offs):
                bad("plot_contour", "design_condition_scatter", {"swap_axis": swap, "kind": dkind}, sub)
            if isinstance(ret, tuple) and not np.array_equal(np.asarray(ret[1], dtype=float), edc):
                bad("plot_contour", "returned_design_conditions", {"kind": dkind}, sub)
        plt.close("all")
    return n


# --------------------------------------------------------------------------------------------- other plots
def fitted_model(which):
    from virocon import GlobalHierarchicalModel, NumberOfIntervalsSlicer, WidthOfIntervalSlicer, DependenceFunction
    if which == "star3":    # two conditional dimensions (both on variable 0): several groups of axes in the parameter plots
        fams, cond = ["WeibullDistribution", "LogNormalDistribution", "WeibullDistribution"], [None, 0, 0]
        src, _ = zoo.build_model(fams, cond, "A")
        data = src.draw_sample(3000, random_state=8)
        m, _ = zoo.build_model(fams, cond, "A")
        m.interval_slicers[0] = NumberOfIntervalsSlicer(5, min_n_points=30, value_range=(float(np.quantile(data[:, 0], 0.01)),
                                                                                           float(np.quantile(data[:, 0], 0.97))))
        with warnings.catch_warnings():
            warnings.simplefilter("ignore")
            m.fit(data)
        return m, data
    if which == "w_ln":
        src, _ = zoo.build_model(["WeibullDistribution", "LogNormalDistribution"], [None, 0], "A")
        fams = ["WeibullDistribution", "LogNormalDistribution"]
    else:
        src, _ = zoo.build_model(["LogNormalDistribution", "WeibullDistribution"], [None, 0], "B")
        fams = ["LogNormalDistribution", "WeibullDistribution"]
    data = src.draw_sample(3000, random_state=8)
    m, _ = zoo.build_model(fams, [None, 0], "A")
    m.interval_slicers[0] = NumberOfIntervalsSlicer(5, min_n_points=30, value_range=(float(np.quantile(data[:, 0], 0.01)),
                                                                                       float(np.quantile(data[:, 0], 0.97))))
    with warnings.catch_warnings():
        warnings.simplefilter("ignore")
        m.fit(data)
    return m, data


def check_other_plots(case, bad):
    import matplotlib
    matplotlib.use("Agg")
    import matplotlib.pyplot as plt
    from virocon import (plot_2D_isodensity, plot_dependence_functions, plot_histograms_of_interval_distributions,
                         plot_marginal_quantiles)
    m, data = fitted_model(case["model"])
    n = 0
    cond_dims = [d for d in range(m.n_dim) if m.conditional_on[d] is not None]
    # ---- isodensity (2-D models)
    for swap, lim, lev in (itertools.product((False, True), (None, [(0.2, 5.0), (0.5, 9.0)]), (None, [1e-3, 1e-2, 1e-1])) if m.n_dim == 2 else ()):
        n += 1
        sub = dict(case, which="isodensity")
        fig, ax = plt.subplots()
        captured = {}
        orig = ax.contour

        def spy(X, Y, Z, *a, _o=orig, **k):
            captured["XYZ"] = (np.array(X, dtype=float), np.array(Y, dtype=float), np.array(Z, dtype=float))
            return _o(X, Y, Z, *a, **k)

        ax.contour = spy
        # other ways of drawing a gridded density are captured as well (a refactoring may switch to them)
        for other in ("contourf", "pcolormesh"):
            def spy2(X, Y, Z, *a, _o=getattr(ax, other), **k):
                captured["XYZ"] = (np.array(X, dtype=float), np.array(Y, dtype=float), np.array(Z, dtype=float))
                return _o(X, Y, Z, *a, **k)
            setattr(ax, other, spy2)
        S = data[:200]
        try:
            plot_2D_isodensity(m, S, swap_axis=swap, limits=lim, levels=lev, ax=ax, n_grid_steps=40)
        except Exception as e:
            bad("isodensity", "exception", {"type": type(e).__name__, "msg": str(e)[:160]}, sub)
            plt.close("all")
            continue
        if "XYZ" not in captured:
            bad("isodensity", "no_contour_call", {}, sub)
        else:
            Xg, Yg, Z = captured["XYZ"]
            if Xg.ndim == 1 and Yg.ndim == 1:     # matplotlib semantics for 1-D grid vectors: Z[i, j] is drawn at (X[j], Y[i])
                Xg, Yg = np.meshgrid(Xg, Yg)
            pts = np.c_[Yg.ravel(), Xg.ravel()] if swap else np.c_[Xg.ravel(), Yg.ravel()]
            expZ = np.asarray(m.pdf(pts), dtype=float).reshape(Z.shape)
            if not np.array_equal(Z, expZ) and not np.allclose(Z, expZ, rtol=1e-13, atol=0):
                k = np.unravel_index(np.argmax(np.abs(Z - expZ)), Z.shape)
                bad("isodensity", "density_values", {"swap_axis": swap, "cell": [int(i) for i in k], "drawn": float(Z[k]),
                                                     "model_pdf": float(expZ[k])}, sub)
            if lim is not None:
                lx, ly = (lim[1], lim[0]) if swap else (lim[0], lim[1])
                if not (np.isclose(Xg.min(), lx[0]) and np.isclose(Xg.max(), lx[1]) and np.isclose(Yg.min(), ly[0]) and np.isclose(Yg.max(), ly[1])):
                    bad("isodensity", "grid_limits", {"swap_axis": swap, "x": [float(Xg.min()), float(Xg.max())],
                                                      "y": [float(Yg.min()), float(Yg.max())]}, sub)
        xi, yi = (1, 0) if swap else (0, 1)
        es = np.c_[S[:, xi], S[:, yi]]
        offs = [np.asarray(col.get_offsets(), dtype=float) for col in ax.collections]
        if not any(o.shape == es.shape and np.array_equal(o, es) for o in offs):
            bad("isodensity", "sample_scatter", {"swap_axis": swap}, sub)
        plt.close("all")
    # ---- dependence functions
    n += 1
    sub = dict(case, which="dependence")
    try:
        axes = plot_dependence_functions(m)
        n_expected = sum(len(m.distributions[d].conditional_parameters) for d in cond_dims)
        if len(axes) != n_expected:
            bad("dependence_plot", "number_of_axes", {"axes": len(axes), "dependent_parameters": n_expected}, sub)
        k_ax = 0
        for d in cond_dims:     # one axes per dependent parameter, in the order of the dimensions and their parameters
            dist = m.distributions[d]
            cv = np.asarray(dist.conditioning_values, dtype=float)
            x = np.linspace(0, max(cv))
            for pname, dep in dist.conditional_parameters.items():
                ax = axes[k_ax]
                k_ax += 1
                ln = ax.get_lines()
                ey = np.asarray(dep(x), dtype=float)
                if len(ln) != 1 or not any(np.array_equal(np.asarray(l.get_xdata(), dtype=float), x) and np.array_equal(np.asarray(l.get_ydata(), dtype=float), ey) for l in ln):
                    bad("dependence_plot", "line_values", {"parameter": pname, "dim": d, "lines_in_axes": len(ln)}, sub)
                est = np.array([p[pname] for p in dist.parameters_per_interval], dtype=float)
                offs = [np.asarray(col.get_offsets(), dtype=float) for col in ax.collections]
                if len(offs) != 1 or not any(o.shape == (len(cv), 2) and np.array_equal(o[:, 0], cv) and np.array_equal(o[:, 1], est) for o in offs):
                    bad("dependence_plot", "interval_estimates", {"parameter": pname, "dim": d, "scatters_in_axes": len(offs)}, sub)
    except Exception as e:
        bad("dependence_plot", "exception", {"type": type(e).__name__, "msg": str(e)[:160]}, sub)
    plt.close("all")
    # ---- histograms of interval distributions
    n += 1
    sub = dict(case, which="histograms")
    try:
        figs, axes_list = plot_histograms_of_interval_distributions(m, data)
        # unconditional dim 0
        ax0 = axes_list[0]
        x0 = np.linspace(np.min(data[:, 0]), np.max(data[:, 0]))
        e0 = np.asarray(m.distributions[0].pdf(x0), dtype=float)
        if not any(np.array_equal(np.asarray(l.get_xdata(), dtype=float), x0) and np.array_equal(np.asarray(l.get_ydata(), dtype=float), e0) for l in ax0.get_lines()):
            bad("histogram_plot", "marginal_pdf_line", {}, sub)
        for d in cond_dims:
            cd = m.distributions[d]
            axs = np.ravel(axes_list[d])
            for k, (dint, di) in enumerate(zip(cd.data_intervals, cd.distributions_per_interval)):
                xx = np.linspace(np.min(dint), np.max(dint))
                ee = np.asarray(di.pdf(xx), dtype=float)
                if not any(np.array_equal(np.asarray(l.get_xdata(), dtype=float), xx) and np.array_equal(np.asarray(l.get_ydata(), dtype=float), ee) for l in axs[k].get_lines()):
                    bad("histogram_plot", "interval_pdf_line", {"interval": k, "dim": d}, sub)
    except Exception as e:
        bad("histogram_plot", "exception", {"type": type(e).__name__, "msg": str(e)[:160]}, sub)
    plt.close("all")
    # ---- marginal quantiles (unconditional dimension: deterministic)
    n += 1
    sub = dict(case, which="marginal_quantiles")
    try:
        np.random.seed(case_seed(case, 0))
        S = data[:300]
        axes = plot_marginal_quantiles(m, S)
        l0 = axes[0].get_lines()[0]
        if not np.array_equal(np.asarray(l0.get_ydata(), dtype=float), np.sort(S[:, 0])):
            bad("marginal_quantile_plot", "ordered_values", {}, sub)
        import scipy.stats as sts
        q = sts.probplot(S[:, 0], dist=sts.uniform, fit=False)[0]  # Filliben positions are the uniform quantiles
        ex = np.asarray(m.distributions[0].icdf(q), dtype=float)
        if not np.allclose(np.asarray(l0.get_xdata(), dtype=float), ex, rtol=1e-12, atol=0):
            bad("marginal_quantile_plot", "theoretical_quantiles", {}, sub)
    except Exception as e:
        bad("marginal_quantile_plot", "exception", {"type": type(e).__name__, "msg": str(e)[:160]}, sub)
    plt.close("all")
    return n


# --------------------------------------------------------------------------------------------- dataset reader
def check_reader(case, bad):
    import pandas as pd
    from virocon import read_ec_benchmark_dataset
    rows, ncol = case["rows"], case["cols"]
    tmp = tempfile.mkdtemp(prefix="vmc_c20_")
    try:
        t0 = pd.Timestamp("1999-12-30 21:00")
        times = [t0 + pd.Timedelta(hours=int(h)) for h in np.cumsum(np.r_[0, 1 + (np.arange(rows - 1) * 7) % 5])]
        rs = np.random.RandomState(rows)
        vals = np.round(rs.uniform(0, 30, size=(rows, ncol)), 4)
        names = ["significant wave height (m)", "zero-up-crossing period (s)", "wind speed (m/s)"][:ncol]
        path = os.path.join(tmp, "data.txt")
        with open(path, "w") as f:
            f.write("time (YYYY-MM-DD-HH); " + "; ".join(names) + "\n")
            for t, v in zip(times, vals):
                f.write(t.strftime("%Y-%m-%d-%H") + "; " + "; ".join(repr(float(x)) for x in v) + "\n")
        sub = dict(case)
        try:
            df = read_ec_benchmark_dataset(path)
        except Exception as e:
            bad("reader", "exception", {"type": type(e).__name__, "msg": str(e)[:160]}, sub)
            return 1
        if df.shape != (rows, ncol):
            bad("reader", "shape", {"shape": list(df.shape), "expected": [rows, ncol]}, sub)
            return 1
        if not np.array_equal(df.values.astype(float), vals):
            bad("reader", "values", {}, sub)
        if list(df.index) != times:
            k = next(i for i, (a, b) in enumerate(zip(df.index, times)) if a != b) if len(df.index) == len(times) else -1
            bad("reader", "time_index", {"row": k, "got": str(df.index[k]) if k >= 0 else None, "expected": str(times[k]) if k >= 0 else None}, sub)
        if [c.strip() for c in df.columns] != names:
            bad("reader", "columns", {"got": list(df.columns)}, sub)
    finally:
        shutil.rmtree(tmp, ignore_errors=True)
    return 1


def run_case(case):
    viol = []

    def bad(check, clause, detail, sub, **extra):
        sig = {"check": check, "clause": clause}
        sig.update(extra)
        if not any(v["sig"] == sig for v in viol):
            viol.append({"sig": sig, "detail": detail, "case": sub})

    k = case["kind"]
    with warnings.catch_warnings():
        warnings.simplefilter("ignore")
        if k == "save":
            n = check_save(case, bad)
        elif k == "plot_contour":
            n = check_plot_contour(case, bad)
        elif k == "other_plots":
            n = check_other_plots(case, bad)
        elif k == "reader":
            n = check_reader(case, bad)
        else:
            raise ValueError(k)
    ref = case.pop("_refused", [0])[0]
    return {"viol": viol, "n": n, "nontrivial": n - ref, "outcomes": [f"{k}:{len(viol)}"],
            "count": {"refused_multi_region_save": ref}}


def main(ctx):
    ctx.rule = ("complete product: save: contour class {IFORM, ISORM, HDC single, HDC multi-region, DS, AND, OR, IFORM 3-D, HDC 3-D} x "
                "semantics {None, plain, ';', blanks, non-ASCII, '%'} x path {no extension, .txt, .csv, dotted directory, a.b, "
                "nested}; plot_2D_contour: contour class x swap_axis x sample {None, array, list} x design_conditions {None, True, "
                "ndarray, list} x ax {None, given}; isodensity (swap x limits x levels), dependence, histogram and "
                "marginal-quantile plots on two fitted models; dataset reader on synthetic files of 1,2,3,10,1000,10000 rows x "
                "2/3 value columns. evaluations = calls; all are non-trivial.")
    ctx.assumptions = ["matplotlib Agg backend; artists read back from the Axes (lines, collections); Axes.contour wrapped on the "
                       "harness side to capture the grid handed to it"]
    cases = []
    for c in ("iform", "iform_3pts", "iform_negative", "isorm", "hdc", "hdc_multi", "ds", "and", "or", "iform3", "hdc3"):
        cases.append({"kind": "save", "contour": c, "semantics": list(SEMANTICS), "paths": PATHS})
    for c in ("iform", "iform_3pts", "iform_negative", "isorm", "hdc", "ds", "and", "or"):
        cases.append({"kind": "plot_contour", "contour": c})
    for mname in ("w_ln", "ln_w", "star3"):
        cases.append({"kind": "other_plots", "model": mname})
    for rows in (1, 2, 3, 10, 1000, 10000):
        for cols in (2, 3):
            cases.append({"kind": "reader", "rows": rows, "cols": cols})
    for c in cases:
        ctx.axis("kind", c["kind"])
    ctx.pmap(cases, label="io")
