"""C15 - HDC coordinates are exactly the boundary cells of the enclosed region; the line sorter returns a permutation."""

import itertools

import numpy as np

from virocon.utils import sort_points_to_form_continuous_line

from .. import refhdr
from ..core import case_seed
from . import c02

PROPERTY = "C15"
LEVEL = "exploration"

SCALINGS = [(1.0, 1.0), (1.0, 3.0), (1.0, 10.0), (0.0202, 0.0484)]


def _multiset(A):
    A = np.asarray(A, dtype=float)
    return sorted(map(tuple, np.round(A, 12).tolist()))


def judge_sorter(x, y, opt, kind="float"):
    """Output must be a permutation of the input points. kind: how the caller passes the coordinates
    (float arrays, integer arrays, python lists - x and y are documented as array_like)."""
    x = np.asarray(x, dtype=float)
    y = np.asarray(y, dtype=float)
    xi, yi = x.copy(), y.copy()
    if kind == "int":
        xa, ya = x.astype(np.int64), y.astype(np.int64)
    elif kind == "list":
        xa, ya = x.tolist(), y.tolist()
    else:
        xa, ya = x, y
    xx, yy = sort_points_to_form_continuous_line(xa, ya, search_for_optimal_start=opt)
    if not (np.array_equal(x, xi) and np.array_equal(y, yi)):
        return "input_mutated", {}
    xx, yy = np.asarray(xx), np.asarray(yy)
    if len(xx) != len(x) or len(yy) != len(y):
        return "sorter_loses_points", {"n_in": len(x), "n_out": len(xx)}
    if sorted(zip(xx.tolist(), yy.tolist())) != sorted(zip(x.tolist(), y.tolist())):
        return "sorter_not_permutation", {"n_in": len(x)}
    return None


def disc(radius):
    r = int(np.ceil(radius))
    g = np.arange(-r - 1, r + 2)
    X, Y = np.meshgrid(g, g, indexing="ij")
    reg = X * X + Y * Y <= radius * radius
    b = refhdr.boundary(reg)
    idx = np.argwhere(b)
    return g[idx[:, 0]].astype(float), g[idx[:, 1]].astype(float)


def run_case(case):
    viol = []

    def bad(clause, detail, sub=None):
        sig = {"check": case["kind"], "clause": clause}
        if not any(v["sig"] == sig for v in viol):
            viol.append({"sig": sig, "detail": detail, "case": sub or case})

    if case["kind"] == "sorter_subsets":
        # all subsets of size k of the 4x4 lattice, under one scaling and one flag
        k, sc, opt = case["k"], case["scaling"], case["opt"]
        pts = [(i, j) for i in range(4) for j in range(4)]
        n = nontriv = 0
        for sub in itertools.combinations(pts, k):
            x = np.array([p[0] * sc[0] for p in sub])
            y = np.array([p[1] * sc[1] for p in sub])
            kinds = ("float", "int", "list") if (sc == [1.0, 1.0] or sc == [1.0, 3.0]) and k <= 6 else ("float",)
            for kd in kinds:
                n += 1
                try:
                    r = judge_sorter(x, y, opt, kd)
                except Exception as e:
                    r = ("exception", {"type": type(e).__name__, "msg": str(e)[:200], "input_kind": kd})
                if r:
                    bad(r[0], dict(r[1], input_kind=kd), {"kind": "sorter_points", "x": x.tolist(), "y": y.tolist(), "opt": opt, "input_kind": kd})
                nontriv += 1
        return {"viol": viol, "n": n, "nontrivial": nontriv, "outcomes": [f"k{k}:{len(viol)}"]}
    if case["kind"] == "sorter_points":
        r = judge_sorter(np.array(case["x"]), np.array(case["y"]), case["opt"], case.get("input_kind", "float"))
        if r:
            bad(r[0], r[1])
        return {"viol": viol, "n": 1, "nontrivial": 1}
    if case["kind"] == "sorter_disc":
        x, y = disc(case["radius"])
        sc = case["scaling"]
        try:
            r = judge_sorter(x * sc[0], y * sc[1], case["opt"])
        except Exception as e:
            r = ("exception", {"type": type(e).__name__, "msg": str(e)[:200]})
        if r:
            bad(r[0], r[1])
        return {"viol": viol, "n": 1, "nontrivial": 1, "outcomes": [f"disc:{len(viol)}"]}

    # ---- HDC grid case
    mname, alpha, lk, ds = case["model"], case["alpha"], case["limits"], tuple(case["deltas"])
    seed = case_seed({k: v for k, v in case.items() if k != "kind"}, 0)
    try:
        model, cond, c, warned = refhdr.make_contour(mname, alpha, lk, (ds[0], ds[1]), seed)
    except Exception as e:
        bad("exception", {"type": type(e).__name__, "msg": str(e)[:300]})
        return {"viol": viol, "n": 1, "nontrivial": 0, "outcomes": ["exception"]}
    res, info = c02.judge_region(model, cond, c, warned, alpha)
    if res or info is None or info.get("region") is None or info.get("borderline"):
        return {"viol": [], "n": 1, "nontrivial": 0, "count": {"skipped_region_not_established": 1}}
    if info.get("ties", 0) > 1:
        return {"viol": [], "n": 1, "nontrivial": 0, "count": {"skipped_density_ties_at_fm": 1}}
    region = info["region"]
    centres = info["centres"]
    n_dim = region.ndim
    B = refhdr.boundary(region)
    comps = refhdr.components(B)
    exp_all = np.array([[centres[d][r[d]] for d in range(n_dim)] for r in np.argwhere(B)])
    coords = c.coordinates
    count = {"components_%d" % min(len(comps), 3): 1}
    if len(comps) == 1:
        if not isinstance(coords, np.ndarray) or coords.ndim != 2 or coords.shape[1] != n_dim:
            try:
                shp = list(np.shape(coords))
            except Exception:       # a ragged list of regions has no shape
                shp = f"ragged list of {len(coords)}"
            bad("single_region_not_array", {"type": type(coords).__name__, "shape": shp})
        else:
            if _multiset(coords) != _multiset(exp_all):
                bad("coordinates_not_boundary_cells", {"returned": len(coords), "boundary_cells": len(exp_all),
                                                       "deltas": [float(d) for d in np.atleast_1d(c.deltas)]})
            elif n_dim == 2:
                idx = np.argwhere(B)
                xs, ys = centres[0][idx[:, 0]], centres[1][idx[:, 1]]
                ex, ey = sort_points_to_form_continuous_line(xs, ys, search_for_optimal_start=True)
                if not (np.array_equal(coords[:, 0], ex) and np.array_equal(coords[:, 1], ey)):
                    bad("order_not_line_sorter_order", {"n": len(coords)})
    else:
        ok = isinstance(coords, list) and len(coords) == len(comps)
        if ok:
            got = []
            for part in coords:
                try:
                    got.append(_multiset(np.array(part, dtype=float).T))
                except Exception:
                    ok = False
            exp = [_multiset(np.array([[centres[d][r[d]] for d in range(n_dim)] for r in comp])) for comp in comps]
            if ok and sorted(got) != sorted(exp):
                ok = False
        if not ok:
            bad("regions_not_one_set_per_component", {"components": len(comps),
                                                      "returned_sets": len(coords) if isinstance(coords, list) else "ndarray"})
    aniso = ds[0] == "cells" and len(set(ds[1])) > 1
    return {"viol": viol, "n": 1, "nontrivial": 1, "outcomes": [f"hdc:{len(comps)}:{len(viol)}"],
            "count": dict(count, anisotropic=int(aniso))}


def main(ctx):
    ctx.rule = ("HDC part: the C02 grid family (models x alpha x limits x deltas incl. default grids and anisotropic cells); "
                "sorter part: ALL subsets of k points (k=1..6 quick, 1..7 thorough) of a 4x4 lattice under axis scalings "
                "(1,1),(1,3),(1,10),(0.0202,0.0484) and both search_for_optimal_start values (integer scalings also as int64 arrays and python lists), plus digital-disc boundaries "
                "of radius 3..20 under the same scalings. evaluations = contours + sorter calls; every case is non-trivial "
                "except HDC cases whose region could not be established (C02 failure, ties at fm).")
    ctx.assumptions = ["region = cells with density >= fm on the grid read back from the object (C02 establishes that)",
                       "boundary = region cells with one of the 3^n-1 neighbours outside the region or the grid (numpy shifts)"]
    cases = []
    for c in c02.all_cases(ctx):
        cases.append(dict(c, kind="hdc"))
    kmax = 6 if ctx.quick else 7
    for k in range(1, kmax + 1):
        for sc in SCALINGS:
            for opt in (False, True):
                if k == 7 and not (opt and sc in (SCALINGS[0], SCALINGS[2])):
                    continue
                cases.append({"kind": "sorter_subsets", "k": k, "scaling": list(sc), "opt": opt})
    for radius in (range(3, 21, 4) if ctx.quick else range(3, 21)):
        for sc in SCALINGS:
            cases.append({"kind": "sorter_disc", "radius": radius, "scaling": list(sc), "opt": True})
    for c in cases:
        ctx.axis("kind", c["kind"])
    cases.sort(key=lambda c: -(c.get("k", 0)))
    ctx.pmap(cases, label="hdc+sorter")
