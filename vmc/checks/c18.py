"""C18 - ill-formed model, fit and contour specifications are rejected, not computed (fault enumeration).

Every malformation class of the property is an *injector* applied to an otherwise valid n-dimensional description at a
position; all (injector, position) singles for n_dim 1..4 and every family as carrier, and all pairs of injectors for
n_dim <= 3 with three carriers. Oracle: the call at which the malformed value is supplied raises; the control (same
description, no injection) constructs, fits and evaluates without error.
"""

import itertools
import warnings

import numpy as np

from virocon import (AndContour, DependenceFunction, DirectSamplingContour, GlobalHierarchicalModel, HighestDensityContour,
                     IFORMContour, ISORMContour, NumberOfIntervalsSlicer, OrContour, PointsPerIntervalSlicer,
                     WidthOfIntervalSlicer)

from .. import zoo

PROPERTY = "C18"
LEVEL = "fault_enumeration"


def base_descs(carrier, n_dim):
    """Valid chain description: dim 0 unconditional, dim i conditional on i-1; every dim uses the carrier family."""
    descs = []
    for i in range(n_dim):
        if i == 0:
            descs.append({"distribution": zoo.make(carrier, zoo.MID[carrier]),
                          "intervals": PointsPerIntervalSlicer(100, min_n_points=50)})
        else:
            tmpl, params, _ = zoo.cond_dim(carrier, "A")
            descs.append({"distribution": tmpl, "conditional_on": i - 1, "parameters": params,
                          "intervals": PointsPerIntervalSlicer(100, min_n_points=50)})
    return descs


# ---- injectors on the model description: (name, applies(i, n), mutate(descs, i, n, carrier))
def _inj_missing_distribution(d, i, n, fam):
    del d[i]["distribution"]


def _inj_no_parameters(d, i, n, fam):
    del d[i]["parameters"]


def _inj_unknown_key(d, i, n, fam):
    d[i]["paramters"] = {}


def _inj_unknown_param_name(d, i, n, fam):
    d[i]["parameters"] = dict(d[i]["parameters"], not_a_parameter=DependenceFunction(lambda x, a=1.0: a + 0 * x))


def _inj_fixed_and_dependent(d, i, n, fam):
    cls, names, _ = zoo.FAMILIES[fam]
    fixed = [nm for nm in names if nm not in zoo.DEPENDENT[fam]]
    if fixed:  # make a fixed parameter also dependent
        d[i]["parameters"] = dict(d[i]["parameters"], **{fixed[0]: DependenceFunction(lambda x, a=1.0: a + 0 * x)})
    else:      # fix a dependent parameter as well
        dep = zoo.DEPENDENT[fam][0]
        d[i]["distribution"] = cls(**{"f_" + dep: zoo.MID[fam][dep]})


def _inj_fixed_zero_and_dependent(d, i, n, fam):
    """a location-like parameter fixed at exactly 0 (falsy) AND given a dependence function"""
    cls, names, roles = zoo.FAMILIES[fam]
    loc = [nm for nm, r in zip(names, roles) if r in ("loc", "mu", "vmu")]
    if not loc:
        raise LookupError("family has no location-like parameter")
    nm = loc[0]
    kw = {"f_" + k: zoo.MID[fam][k] for k in names if k not in zoo.DEPENDENT[fam] and k != nm}
    kw["f_" + nm] = 0 if i % 2 else 0.0
    d[i]["distribution"] = cls(**kw)
    p = {k: v for k, v in d[i]["parameters"].items()}
    p[nm] = DependenceFunction(lambda x, a=0.5: a + 0 * x)
    d[i]["parameters"] = p


def _inj_neither(d, i, n, fam):
    p = dict(d[i]["parameters"])
    p.pop(zoo.DEPENDENT[fam][0])
    d[i]["parameters"] = p


def _inj_first_conditional(d, i, n, fam):
    tmpl, params, _ = zoo.cond_dim(fam, "A")
    d[0] = {"distribution": tmpl, "conditional_on": (1 if n > 1 else 0), "parameters": params}


def _inj_cond_self(d, i, n, fam):
    d[i]["conditional_on"] = i


def _inj_cond_later(d, i, n, fam):
    d[i]["conditional_on"] = i + 1


def _inj_cond_nonexistent(d, i, n, fam):
    d[i]["conditional_on"] = n


def _inj_cond_negative(d, i, n, fam):
    d[i]["conditional_on"] = -1


DESC_INJ = {
    "missing_distribution": (lambda i, n: True, _inj_missing_distribution),
    "conditional_without_parameters": (lambda i, n: i >= 1, _inj_no_parameters),
    "unknown_key": (lambda i, n: True, _inj_unknown_key),
    "unknown_parameter_name": (lambda i, n: i >= 1, _inj_unknown_param_name),
    "parameter_fixed_and_dependent": (lambda i, n: i >= 1, _inj_fixed_and_dependent),
    "parameter_fixed_at_zero_and_dependent": (lambda i, n: i >= 1, _inj_fixed_zero_and_dependent),
    "parameter_neither_fixed_nor_dependent": (lambda i, n: i >= 1, _inj_neither),
    "first_variable_conditional": (lambda i, n: i == 0, _inj_first_conditional),
    "conditional_on_self": (lambda i, n: i >= 1, _inj_cond_self),
    "conditional_on_later": (lambda i, n: 1 <= i < n - 1, _inj_cond_later),
    "conditional_on_nonexistent": (lambda i, n: i >= 1, _inj_cond_nonexistent),
    "conditional_on_negative": (lambda i, n: i >= 1, _inj_cond_negative),
}

# ---- injectors on the fit call: mutate (data, fit_descriptions)
FIT_INJ = {
    "data_fewer_columns": (lambda i, n: i == 0 and n >= 2, lambda data, fd, i, n: (data[:, :-1], fd)),
    "data_more_columns": (lambda i, n: i == 0, lambda data, fd, i, n: (np.c_[data, data[:, 0]], fd)),
    "fit_descriptions_too_short": (lambda i, n: i == 0 and n >= 2, lambda data, fd, i, n: (data, fd[:-1])),
    "fit_descriptions_too_long": (lambda i, n: i == 0, lambda data, fd, i, n: (data, fd + [None])),
    "fit_description_without_method": (lambda i, n: True, lambda data, fd, i, n: (data, fd[:i] + [{"weights": None}] + fd[i + 1:])),
    # falsy non-None fit descriptions have no "method" either (an "if not desc" test would take them for None)
    **{f"fit_description_falsy_{type(v).__name__}": (lambda i, n: True, (lambda data, fd, i, n, v=v: (data, fd[:i] + [v] + fd[i + 1:])))
       for v in ({}, [], "", 0, False)},
    "unknown_fit_method": (lambda i, n: True, lambda data, fd, i, n: (data, fd[:i] + [{"method": "least_absolute"}] + fd[i + 1:])),
    # near misses of the valid names (prefixes, substrings, the empty string, trailing characters)
    **{f"unknown_fit_method_{nm!r}": (lambda i, n: True, (lambda data, fd, i, n, nm=nm: (data, fd[:i] + [{"method": nm}] + fd[i + 1:])))
       for nm in ("wls", "ls", "sq", "", "ml", "mlee", "lsqq", "lsq ", "w")},
    # only meaningful where least squares is implemented (exponentiated Weibull carrier), see run_case
    "unknown_weight_keyword": (lambda i, n: True, lambda data, fd, i, n: (data, fd[:i] + [{"method": "wlsq", "weights": "quartic"}] + fd[i + 1:])),
    "scalar_weights": (lambda i, n: True, lambda data, fd, i, n: (data, fd[:i] + [{"method": "wlsq", "weights": 2.0}] + fd[i + 1:])),
}


def _with(data, col, value):
    d = data.copy()
    d[3, col] = value
    return d


def control_data(carrier, n_dim, model):
    return model.draw_sample(500, random_state=11)


def run_single_desc(carrier, n_dim, inj, pos, inj2=None, pos2=None):
    """Returns (status, detail): status in ok(raised)/accepted/control_failed."""
    descs = base_descs(carrier, n_dim)
    DESC_INJ[inj][1](descs, pos, n_dim, carrier)
    if inj2:
        DESC_INJ[inj2][1](descs, pos2, n_dim, carrier)
    try:
        m = GlobalHierarchicalModel(descs)
    except Exception as e:
        return "raised", type(e).__name__
    # accepted: show that it even computes something
    computed = None
    try:
        s = m.draw_sample(3, random_state=1)
        computed = np.asarray(s).tolist()
    except Exception as e:
        computed = "later: " + type(e).__name__
    return "accepted", computed


def run_case(case):
    kind = case["kind"]
    viol = []
    n = 0
    nontriv = 0
    exc_types = {}
    outcomes = set()

    def bad(clause, detail, sub):
        sig = {"check": "reject", "stage": case["stage"], "injector": clause}
        if not any(v["sig"] == sig for v in viol):
            viol.append({"sig": sig, "detail": detail, "case": sub})

    if kind == "desc":
        carrier, n_dim = case["carrier"], case["n_dim"]
        # control
        try:
            m = GlobalHierarchicalModel(base_descs(carrier, n_dim))
            m.pdf(m.draw_sample(3, random_state=1))
        except Exception as e:
            return {"harness_error": f"control failed for {carrier} n_dim={n_dim}: {type(e).__name__}: {e}", "case": case}
        combos = case.get("combos")
        if combos is None:
            combos = [(inj, pos, None, None) for inj, (app, _) in DESC_INJ.items() for pos in range(n_dim) if app(pos, n_dim)]
        for inj, pos, inj2, pos2 in combos:
            n += 1
            nontriv += 1
            try:
                st, det = run_single_desc(carrier, n_dim, inj, pos, inj2, pos2)
            except Exception as e:
                # an injector that cannot be applied together with the first one (e.g. key already deleted)
                n -= 1
                nontriv -= 1
                continue
            if st == "raised":
                exc_types[det] = exc_types.get(det, 0) + 1
                outcomes.add("raised:" + det)
            else:
                name = inj if not inj2 else f"{inj}+{inj2}"
                bad(name if not inj2 else "pair", {"injectors": [inj, inj2], "positions": [pos, pos2], "carrier": carrier,
                                                   "n_dim": n_dim, "computed_instead": det},
                    {"kind": "desc", "stage": "model_constructor", "carrier": carrier, "n_dim": n_dim,
                     "combos": [[inj, pos, inj2, pos2]]})
                if inj2:
                    viol[-1]["sig"]["injector"] = "+".join(sorted([inj, inj2]))
                outcomes.add("accepted")
    elif kind == "fit":
        carrier, n_dim = case["carrier"], case["n_dim"]
        with warnings.catch_warnings():
            warnings.simplefilter("ignore")
            try:
                m0 = GlobalHierarchicalModel(base_descs(carrier, n_dim))
                data = control_data(carrier, n_dim, m0)
                GlobalHierarchicalModel(base_descs(carrier, n_dim)).fit(data.copy(), [None] * n_dim)
            except Exception as e:
                return {"viol": [], "n": 0, "nontrivial": 0, "count": {"fit_control_failed_" + zoo.SHORT[carrier]: 1}}
            for inj, (app, mut) in FIT_INJ.items():
                for pos in range(n_dim):
                    if not app(pos, n_dim):
                        continue
                    if inj in ("unknown_weight_keyword", "scalar_weights"):
                        if carrier != "ExponentiatedWeibullDistribution":
                            continue
                        # control: the same description with a valid keyword fits
                        try:
                            GlobalHierarchicalModel(base_descs(carrier, n_dim)).fit(
                                data.copy(), [None] * pos + [{"method": "wlsq", "weights": "linear"}] + [None] * (n_dim - pos - 1))
                        except Exception:
                            continue
                    n += 1
                    nontriv += 1
                    d2, fd2 = mut(data.copy(), [None] * n_dim, pos, n_dim)
                    m = GlobalHierarchicalModel(base_descs(carrier, n_dim))
                    try:
                        m.fit(d2, fd2)
                    except Exception as e:
                        exc_types[type(e).__name__] = exc_types.get(type(e).__name__, 0) + 1
                        outcomes.add("raised:" + type(e).__name__)
                        continue
                    bad(inj, {"position": pos, "carrier": carrier, "n_dim": n_dim}, dict(case))
    elif kind == "misc":
        for name, fn in MISC.items():
            if case.get("only") and name not in case["only"]:
                continue
            n += 1
            nontriv += 1
            try:
                res = fn()
            except _ControlFailed as e:
                return {"harness_error": f"control of {name} failed: {e}", "case": case}
            except Exception as e:
                exc_types[type(e).__name__] = exc_types.get(type(e).__name__, 0) + 1
                outcomes.add("raised:" + type(e).__name__)
                continue
            bad(name, {"returned": repr(res)[:200]}, {"kind": "misc", "stage": "misc", "only": [name]})
    return {"viol": viol, "n": n, "nontrivial": nontriv, "outcomes": list(outcomes),
            "count": {"exc_" + k: v for k, v in exc_types.items()}}


class _ControlFailed(Exception):
    pass


def _model2():
    return zoo.build_model(["WeibullDistribution", "LogNormalDistribution"], [None, 0], "A")[0]


def _model3():
    return zoo.build_model(["WeibullDistribution", "LogNormalDistribution", "NormalDistribution"], [None, 0, 1], "A")[0]


def _ctl(f):
    try:
        return f()
    except Exception as e:
        raise _ControlFailed(f"{type(e).__name__}: {e}")


def _hdc(**kw):
    def run():
        m = _model2()
        _ctl(lambda: HighestDensityContour(m, 0.1, limits=[(0, 8), (0, 10)], deltas=[0.2, 0.2]))
        return HighestDensityContour(m, 0.1, **kw).coordinates
    return run


def _eval(method, value):
    def run():
        m = _model2()
        _ctl(lambda: getattr(m, method)([[1.0, 2.0]]))
        return getattr(m, method)([[1.0, value]])
    return run


def _contour3(cls):
    def run():
        m3 = _model3()
        S2 = _model2().draw_sample(300, random_state=1)
        _ctl(lambda: cls(_model2(), 0.1, sample=S2))
        S3 = m3.draw_sample(300, random_state=1)
        return cls(m3, 0.1, sample=S3).coordinates
    return run


def _nonmodel(cls):
    def run():
        _ctl(lambda: cls(_model2(), 0.1, n_points=8))
        return cls("not a model", 0.1, n_points=8).coordinates
    return run


def _slicer(cls, args, kw, data=np.linspace(0, 5, 60)):
    def run():
        s = cls(*args, **kw)
        return s.slice_(data)
    return run


def _ew_weights(weights):
    def run():
        from virocon import ExponentiatedWeibullDistribution
        x = np.random.RandomState(3).weibull(1.5, 200) + 0.1
        d = ExponentiatedWeibullDistribution(f_delta=2)
        _ctl(lambda: ExponentiatedWeibullDistribution(f_delta=2).fit(x, method="wlsq", weights="linear"))
        d.fit(x, method="wlsq", weights=weights)
        return d.parameters
    return run


def _unknown_method_dist(name="moments", ew=False):
    def run():
        from virocon import ExponentiatedWeibullDistribution, WeibullDistribution
        cls = ExponentiatedWeibullDistribution if ew else WeibullDistribution
        d = cls()
        x = np.random.RandomState(3).weibull(1.5, 200) + 0.1
        _ctl(lambda: cls().fit(x, method="mle"))
        d.fit(x, method=name)
        return d.parameters
    return run


def _eval_nd(method, n_dim, pos, value):
    def run():
        m = _model2() if n_dim == 2 else _model3()
        pt = [1.0, 2.0, 1.5][:n_dim]
        if method == "pdf" or n_dim == 2:
            _ctl(lambda: getattr(m, method)([pt]))
        bad_pt = list(pt)
        bad_pt[pos] = value
        return getattr(m, method)([pt, bad_pt] if method == "pdf" else [bad_pt])
    return run


MISC = {
    "hdc_limits_wrong_length": _hdc(limits=[(0, 8)], deltas=[0.2, 0.2]),
    "hdc_limits_too_long": _hdc(limits=[(0, 8), (0, 10), (0, 3)], deltas=[0.2, 0.2]),
    "hdc_limits_3_tuples": _hdc(limits=[(0, 4, 8), (0, 5, 10)], deltas=[0.2, 0.2]),
    "hdc_limits_scalars": _hdc(limits=[8, 10], deltas=[0.2, 0.2]),
    "hdc_deltas_wrong_length": _hdc(limits=[(0, 8), (0, 10)], deltas=[0.2]),
    "hdc_deltas_too_long": _hdc(limits=[(0, 8), (0, 10)], deltas=[0.2, 0.2, 0.2]),
    "pdf_nan_point": _eval("pdf", float("nan")),
    "pdf_inf_point": _eval("pdf", float("inf")),
    "cdf_nan_point": _eval("cdf", float("nan")),
    "cdf_inf_point": _eval("cdf", float("inf")),
    **{f"{meth}_{name}_point_dim{pos}_of_{nd}": _eval_nd(meth, nd, pos, val)
       for meth in ("pdf", "cdf") for nd in (2, 3) for pos in range(3) if pos < nd
       for name, val in (("nan", float("nan")), ("inf", float("inf")), ("neginf", float("-inf")))},
    "direct_sampling_3d_model": _contour3(DirectSamplingContour),
    "and_contour_3d_model": _contour3(AndContour),
    "or_contour_3d_model": _contour3(OrContour),
    "iform_non_model": _nonmodel(IFORMContour),
    "isorm_non_model": _nonmodel(ISORMContour),
    "width_slicer_unknown_keyword": _slicer(WidthOfIntervalSlicer, (1.0,), {"min_points": 3}),
    "number_slicer_unknown_keyword": _slicer(NumberOfIntervalsSlicer, (3,), {"includemax": True}),
    "points_slicer_unknown_keyword": _slicer(PointsPerIntervalSlicer, (10,), {"lastfull": True}),
    "width_slicer_unknown_reference_keyword": _slicer(WidthOfIntervalSlicer, (1.0,), {"reference": "middle", "min_n_points": 1}),
    "number_slicer_unknown_reference_keyword": _slicer(NumberOfIntervalsSlicer, (3,), {"reference": "middle", "min_n_points": 1}),
    "points_slicer_unknown_reference_keyword": _slicer(PointsPerIntervalSlicer, (10,), {"reference": "middle", "min_n_points": 1}),
    "width_slicer_wrong_reference_type": _slicer(WidthOfIntervalSlicer, (1.0,), {"reference": 3.5, "min_n_points": 1}),
    "number_slicer_wrong_reference_type": _slicer(NumberOfIntervalsSlicer, (3,), {"reference": 3.5, "min_n_points": 1}),
    "points_slicer_wrong_reference_type": _slicer(PointsPerIntervalSlicer, (10,), {"reference": 3.5, "min_n_points": 1}),
    "width_slicer_too_few_intervals": _slicer(WidthOfIntervalSlicer, (4.0,), {"min_n_points": 1, "min_n_intervals": 3}),
    "number_slicer_too_few_intervals": _slicer(NumberOfIntervalsSlicer, (5,), {"min_n_points": 30, "min_n_intervals": 4}),
    "points_slicer_too_few_intervals": _slicer(PointsPerIntervalSlicer, (25,), {"min_n_points": 1, "min_n_intervals": 4}),
    "ew_unknown_weight_keyword": _ew_weights("quartic"),
    **{f"ew_unknown_weight_keyword_{nm!r}": _ew_weights(nm) for nm in ("lin", "quad", "cub", "", " linear", "linearquadratic")},
    **{f"width_slicer_unknown_reference_{nm!r}": _slicer(WidthOfIntervalSlicer, (1.0,), {"reference": nm, "min_n_points": 1})
       for nm in ("centre", "cent", "", "l", "rights", "leftright")},
    **{f"number_slicer_unknown_reference_{nm!r}": _slicer(NumberOfIntervalsSlicer, (3,), {"reference": nm, "min_n_points": 1})
       for nm in ("centre", "cent", "", "l", "rights", "leftright")},
    "ew_scalar_weights": _ew_weights(2.0),
    "distribution_unknown_fit_method": _unknown_method_dist(),
    **{f"ew_unknown_fit_method_{nm!r}": _unknown_method_dist(nm, True) for nm in ("wls", "ls", "sq", "", "ml", "lsqq", "moments")},
}


def main(ctx):
    ctx.rule = ("fault enumeration: 12 description injectors x every applicable position x n_dim 1..4 x every family as carrier "
                "(singles); all ordered pairs of description injectors at all position pairs for n_dim <= 3 with three carriers; "
                "8 fit-call injector classes (unknown method with 10 near-miss names) x positions x n_dim 1..3 x carriers whose control fit succeeds; 60 further malformations "
                "(HDC limits/deltas, non-finite points, 3-D models for 2-D contours, non-models, slicer keywords/reference "
                "keywords/types, too few intervals, weight keywords, fit methods), each with its control. evaluations = "
                "malformed calls; each is non-trivial (its control passes).")
    ctx.assumptions = ["a malformed model description must be rejected by the GlobalHierarchicalModel constructor, a malformed fit "
                       "call by fit(), a malformed contour by its constructor, slicer options by the constructor or slice_()",
                       "any Exception type counts as rejection; the type histogram is recorded"]
    cases = []
    fams = list(zoo.FAMILIES)
    for carrier in fams:
        for n_dim in (1, 2, 3, 4):
            cases.append({"kind": "desc", "stage": "model_constructor", "carrier": carrier, "n_dim": n_dim})
    pair_carriers = fams if not ctx.quick else fams[:3]
    for carrier in pair_carriers:
        for n_dim in (2, 3):
            singles = [(inj, pos) for inj, (app, _) in DESC_INJ.items() for pos in range(n_dim) if app(pos, n_dim)]
            # pairs whose two injections cancel each other into a VALID description are not faults
            cancel = {"parameter_fixed_and_dependent", "parameter_neither_fixed_nor_dependent",
                      "parameter_fixed_at_zero_and_dependent"}
            combos = [[a[0], a[1], b[0], b[1]] for a, b in itertools.permutations(singles, 2)
                      if not ({a[0], b[0]} <= cancel and a[0] != b[0] and a[1] == b[1])]
            for k in range(0, len(combos), 150):
                cases.append({"kind": "desc", "stage": "model_constructor", "carrier": carrier, "n_dim": n_dim,
                              "combos": combos[k:k + 150]})
    for carrier in fams:
        for n_dim in ((1, 2) if ctx.quick else (1, 2, 3)):
            cases.append({"kind": "fit", "stage": "fit", "carrier": carrier, "n_dim": n_dim})
    cases.append({"kind": "misc", "stage": "misc"})
    for c in cases:
        ctx.axis("kind", c["kind"])
    ctx.pmap(cases, label="faults")
