"""C04 - AND/OR contour points have empirical exceedance alpha within allowed_error (lattice exploration)."""

import itertools
import warnings

import numpy as np

from virocon import AndContour, OrContour

from .. import zoo
from ..core import case_seed

PROPERTY = "C04"
LEVEL = "exploration"

MODELS = {"w_ln": (["WeibullDistribution", "LogNormalDistribution"], [None, 0], "A"),
          "ew_ew": (["ExponentiatedWeibullDistribution", "ExponentiatedWeibullDistribution"], [None, 0], "B"),
          "ln_gg_indep": (["LogNormalDistribution", "GeneralizedGammaDistribution"], [None, None], "A")}


def _coords(c):
    X = np.array([[float(np.asarray(v).reshape(-1)[0]) for v in row] for row in c.coordinates], dtype=float)
    return X


def construct(kind, model, alpha, step, S, ae, lohi, seed):
    np.random.seed(seed)
    with warnings.catch_warnings(record=True) as wl:
        warnings.simplefilter("always")
        if kind == "and":
            c = AndContour(model, alpha, deg_step=step, sample=S, allowed_error=ae)
        else:
            c = OrContour(model, alpha, deg_step=step, sample=S, allowed_error=ae, lowest_theta=lohi[0],
                          highest_theta=lohi[1])
    warned = any(issubclass(w.category, UserWarning) and "required precision" in str(w.message) for w in wl)
    return c, warned


def _pe_exit(x, y, th):
    xmaxc, ymaxc = 1.1 * np.max(x), 1.1 * np.max(y)
    cth, sth = np.cos(np.radians(th)), np.sin(np.radians(th))
    t_exit = min(xmaxc / cth if cth > 0 else np.inf, ymaxc / sth if sth > 0 else np.inf)
    ex, ey = t_exit * cth * (1 - 1e-12), t_exit * sth * (1 - 1e-12)
    return np.mean((x > ex) | (y > ey))


def _all_rays_droppable(x, y, alpha, ae, lohi, step):
    return all(_pe_exit(x, y, th) >= alpha * (1 - ae) - 1e-12 for th in np.arange(lohi[0], lohi[1], step))


def run_case(case):
    mname, n, sseed = case["model"], case["n"], case["sample_seed"]
    fams, cond, assign = MODELS[mname]
    model, _ = zoo.build_model(fams, cond, assign)
    S = model.draw_sample(n, random_state=sseed)
    if case.get("int_sample"):      # integer-typed sample (whole decimetres): ties, int dtype
        S = np.round(S * 10).astype(np.int64)
        S = S[(S[:, 0] > 0) & (S[:, 1] > 0)]
    if case.get("zero_inflated"):   # calm / not-measured entries: exact zeros in one variable (ties with axis points of the rays)
        S = S.copy()
        S[::3, {"x": 0, "y": 1}[case["zero_inflated"]]] = 0.0
    x, y = S.T
    viol, ncont, nontriv, exempt, refused = [], 0, 0, 0, 0
    rays = {"kept": 0, "dropped": 0}
    outcomes = set()
    for kind, alpha, step, ae, lohi in itertools.product(case["kinds"], case["alphas"], case["steps"], case["aes"], case["lohis"]):
        if kind == "and" and lohi != case["lohis"][0]:
            continue
        sub = dict(case, kinds=[kind], alphas=[alpha], steps=[step], aes=[ae], lohis=[lohi])

        def bad(clause, detail):
            sig = {"check": "andor", "contour": kind, "clause": clause}
            if not any(v["sig"] == sig for v in viol):
                viol.append({"sig": sig, "detail": detail, "case": sub})

        seed = case_seed({"k": kind, "a": alpha, "s": step}, case.get("run_seed", 0))
        S_in = S.copy()
        try:
            c, warned = construct(kind, model, alpha, step, S, ae, lohi, seed)
            c2, warned2 = construct(kind, model, alpha, step, S, ae, lohi, seed)
        except Exception as e:
            if kind == "or" and isinstance(e, IndexError) and _all_rays_droppable(x, y, alpha, ae, lohi, step):
                # every ray may legitimately be dropped: no contour can be returned (a refusal, not a wrong result)
                refused += 1
                continue
            bad("exception", {"type": type(e).__name__, "msg": str(e)[:200]})
            continue
        ncont += 1
        if not np.array_equal(S, S_in):
            bad("sample_mutated", {})
        X = _coords(c)
        if not np.array_equal(X, _coords(c2)) or warned != warned2:
            bad("not_repeatable", {})
        if warned:
            exempt += 1
            outcomes.add("exempt")
            continue
        nontriv += 1
        if kind == "and":
            thetas = np.arange(0, 90, step)
            if X.shape != (len(thetas) + 1, 2):
                bad("shape", {"shape": list(X.shape), "expected": [len(thetas) + 1, 2]})
                continue
            if not (X[-1, 0] == 0 and X[-1, 1] == 0):
                bad("closure", {"last": X[-1]})
            for i, th in enumerate(thetas):
                px, py = X[i]
                ang = np.degrees(np.arctan2(py, px))
                if not abs(ang - th) <= 1e-7:
                    bad("not_on_ray", {"i": i, "theta": float(th), "angle": float(ang), "point": [px, py]})
                    break
                pe = np.mean((x > px) & (y > py))
                if not abs(pe - alpha) <= ae * alpha + 1e-12:
                    bad("exceedance", {"i": i, "theta": float(th), "point": [px, py], "pe": float(pe), "alpha": alpha,
                                       "allowed_error": ae})
                    break
        else:
            thetas = np.arange(lohi[0], lohi[1], step)
            if X.ndim != 2 or X.shape[1] != 2 or len(X) < 4:
                bad("shape", {"shape": list(X.shape)})
                continue
            pts, tail = X[:-3], X[-3:]
            exp_tail = np.array([[0, pts[-1, 1]], [0, 0], [pts[0, 0], 0]])
            if not np.array_equal(tail, exp_tail):
                bad("closure", {"tail": tail, "expected": exp_tail})
            xmaxc, ymaxc = 1.1 * np.max(x), 1.1 * np.max(y)
            # kept points: a subsequence of the rays, each inside the 1.1*max box and at exceedance alpha
            k = 0
            kept = np.zeros(len(thetas), bool)
            ok = True
            for (px, py) in pts:
                ang = np.degrees(np.arctan2(py, px))
                while k < len(thetas) and abs(ang - thetas[k]) > 1e-7:
                    k += 1
                if k == len(thetas):
                    bad("not_on_ray", {"angle": float(ang), "point": [px, py], "thetas": thetas[:5]})
                    ok = False
                    break
                kept[k] = True
                if not (px < xmaxc and py < ymaxc):
                    bad("kept_point_outside_box", {"point": [px, py], "box": [xmaxc, ymaxc]})
                pe = np.mean((x > px) | (y > py))
                if not abs(pe - alpha) <= ae * alpha + 1e-12:
                    bad("exceedance", {"theta": float(thetas[k]), "point": [px, py], "pe": float(pe), "alpha": alpha,
                                       "allowed_error": ae})
                    ok = False
                    break
                k += 1
            if ok:
                rays["kept"] += int(kept.sum())
                rays["dropped"] += int((~kept).sum())
                for j, th in enumerate(thetas):
                    if kept[j]:
                        continue
                    # the ray leaves the box at t_exit; dropping is only legitimate if the OR exceedance there
                    # is still >= alpha(1-ae) (exceedance is non-increasing along the ray)
                    pe_exit = _pe_exit(x, y, th)
                    if pe_exit < alpha * (1 - ae) - 1e-12:
                        bad("point_dropped_inside_box", {"theta": float(th), "pe_at_box_exit": float(pe_exit), "alpha": alpha})
                        break
        outcomes.add("ok")
    return {"viol": viol, "n": ncont, "nontrivial": nontriv, "outcomes": list(outcomes),
            "count": {"exempt_precision_warning": exempt, "refused_all_rays_dropped": refused, "or_rays_kept": rays["kept"],
                      "or_rays_dropped": rays["dropped"]}}


def main(ctx):
    ctx.rule = ("complete product: model {W->LN, EW->EW, LN x GG independent} x n x sample seed x {AND, OR} x alpha in "
                "{1e-3,.01,.05,.2} x deg_step in {1,3,7,15,30} x allowed_error in {.005,.01,.05,.2} x (lowest,highest) "
                "theta for OR; each contour constructed twice under the same global seed. evaluations = contours (pairs); "
                "plus zero-inflated samples, every n in 200..300 for one model, and an OR ray-angle grid lowest {0,5,10,15,20,30} x highest {45..90} x step {1,2.5,3,5,7.5,15}; non-trivial = contours that did not emit the 'required precision' warning (those are exempt by the "
                "property).")
    ctx.assumptions = ["the 'required precision' UserWarning exempts the whole contour (it cannot be attributed to a ray)",
                       "exceedance recomputed with strict > on the supplied sample (also for zero-inflated samples, where a third of one variable is exactly 0 and ties with the axis points of the 0 degree ray)"]
    q = ctx.quick
    ns = (200, 1000, 10000) if q else (200, 1000, 10000, 50000)
    alphas = [1e-3, 0.01, 0.05, 0.2]
    steps = [3, 7, 15, 30, 2.5] if q else [1, 3, 7, 15, 30, 2.5, 22.5]
    aes = [0.005, 0.01, 0.05, 0.2]
    lohis = [[10, 80], [5, 45], [30, 85], [0, 90]]
    cases = []
    for m in MODELS:
        for n in ns:
            for sseed in ((3,) if q else (3, 4, 5)):
                for kind in ("and", "or"):
                    for alpha in alphas:
                        cases.append({"model": m, "n": n, "sample_seed": sseed, "kinds": [kind], "alphas": [alpha],
                                      "steps": steps, "aes": aes, "lohis": lohis, "run_seed": ctx.seed})
    for kind in ("and", "or"):
        cases.append({"model": "w_ln", "n": 5000, "sample_seed": 9, "kinds": [kind], "alphas": [0.05, 0.2], "steps": [7, 15],
                      "aes": [0.05, 0.2], "lohis": lohis[:2], "run_seed": ctx.seed, "int_sample": True})
    for kind in ("and", "or"):
        for zi in ("x", "y"):
            for n in (600, 20000):
                cases.append({"model": "w_ln", "n": n, "sample_seed": 11, "kinds": [kind], "alphas": [0.01, 0.05, 0.2], "steps": [5, 15, 30],
                              "aes": [0.05, 0.2], "lohis": [lohis[3], lohis[0]], "run_seed": ctx.seed, "zero_inflated": zi})
    # OR ray angles: every (lowest, highest, step) of a grid - the number of rays and the exclusive end are float-sensitive
    for lo in (0, 5, 10, 15, 20, 30):
        his = [hi for hi in (45, 50, 60, 75, 80, 85, 90) if hi > lo + 10]
        cases.append({"model": "ln_gg_indep", "n": 1000, "sample_seed": 17, "kinds": ["or"], "alphas": [0.05], "steps": [1, 2.5, 3, 5, 7.5, 15],
                      "aes": [0.05], "lohis": [[lo, hi] for hi in his], "run_seed": ctx.seed})
        cases.append({"model": "w_ln", "n": 1000, "sample_seed": 17, "kinds": ["or"], "alphas": [0.2], "steps": [1, 5, 7.5],
                      "aes": [0.2], "lohis": [[lo, hi] for hi in his], "run_seed": ctx.seed})
    # every sample size 200..300 (count bookkeeping like int(alpha*n) only misbehaves for some n)
    for n in range(200, 301):
        for kind in ("and", "or"):
            cases.append({"model": "w_ln", "n": n, "sample_seed": 13, "kinds": [kind], "alphas": [0.05, 0.2], "steps": [15],
                          "aes": [0.05, 0.2], "lohis": [lohis[0]], "run_seed": ctx.seed})
    cases.sort(key=lambda c: -c["n"])
    ctx.pmap(cases, label="andor")
