"""C12 - maximum-likelihood fits do not lose likelihood and are scale-equivariant (lattice exploration)."""

import itertools

import numpy as np

from .. import zoo

PROPERTY = "C12"
LEVEL = "exploration"

# how each parameter transforms when the data are multiplied by c
TRANS = {
    "WeibullDistribution": {"alpha": "scale", "beta": "shape", "gamma": "scale"},
    "LogNormalDistribution": {"mu": "logscale", "sigma": "shape"},
    "NormalDistribution": {"mu": "scale", "sigma": "scale"},
    "LogNormalNormFitDistribution": {"mu_norm": "scale", "sigma_norm": "scale"},
    "ExponentiatedWeibullDistribution": {"alpha": "scale", "beta": "shape", "delta": "shape"},
    "GeneralizedGammaDistribution": {"m": "shape", "c": "shape", "lambda_": "invscale"},
    "GumbelR": {"loc": "scale", "scale": "scale"},
    "GammaS": {"a": "shape", "loc": "scale", "scale": "scale"},
    "ExponWeibS": {"a": "shape", "c": "shape", "loc": "scale", "scale": "scale"},
    "VonMisesDistribution": {"kappa": "shape", "mu": "none"},
}
GRID = {
    "WeibullDistribution": [dict(alpha=a, beta=b, gamma=g) for a in (0.3, 2.0, 8.0) for b in (0.8, 1.5, 3.0) for g in (0.0, 0.5)]
                           # negative location: part of the sample is <= 0 (e.g. anomalies, demeaned series)
                           + [dict(alpha=2.0, beta=b, gamma=-0.5) for b in (1.5, 3.0)],
    "LogNormalDistribution": [dict(mu=m, sigma=s) for m in (-1.0, 0.5, 2.0) for s in (0.2, 0.7)],
    "NormalDistribution": [dict(mu=m, sigma=s) for m in (-1.0, 2.0, 8.0) for s in (0.3, 2.0)],
    "LogNormalNormFitDistribution": [dict(mu_norm=m, sigma_norm=s) for m in (0.5, 3.0) for s in (0.2, 1.5)],
    "ExponentiatedWeibullDistribution": [dict(alpha=a, beta=b, delta=d) for a in (0.5, 2.0) for b in (0.8, 1.5) for d in (1.0, 3.0)],
    "GeneralizedGammaDistribution": [dict(m=m, c=c, lambda_=l) for m in (1.0, 2.5) for c in (1.0, 2.0) for l in (0.3, 1.5)],
    "GumbelR": [dict(loc=l, scale=s) for l in (0.5, 5.0) for s in (0.3, 2.0)],
    "GammaS": [dict(a=a, loc=0.0, scale=s) for a in (1.5, 4.0) for s in (0.3, 2.0)],
    "ExponWeibS": [dict(a=a, c=c, loc=0.0, scale=s) for a, c in ((3.0, 1.2), (1.5, 2.5)) for s in (0.5, 2.0)],
    "VonMisesDistribution": [dict(kappa=k, mu=m) for k in (0.5, 2.0, 8.0) for m in (-1.0, 0.5)],
}
POSITIVE_SHAPES = {"shape", "scale", "invscale"}


def loglik(fam, params, data):
    with np.errstate(all="ignore"):
        try:
            p = np.asarray(zoo.make(fam, params).pdf(data), dtype=float)
        except Exception:
            return -np.inf
        if np.any(~np.isfinite(p)) or np.any(p <= 0):
            return -np.inf
        return float(np.sum(np.log(p)))


def scale_params(fam, params, c):
    out = {}
    for k, v in params.items():
        t = TRANS[fam][k]
        out[k] = v * c if t == "scale" else (v + np.log(c) if t == "logscale" else (v / c if t == "invscale" else v))
    return out


def admissible(fam, params):
    cls, names, roles = zoo.FAMILIES[fam]
    for n, r in zip(names, roles):
        v = params[n]
        if not np.isfinite(v):
            return False
        if r in ("scale", "shape", "sigma", "delta", "kappa", "lambda", "mean", "std") and not v > 0:
            return False
    return True


def fit(fam, data, start, fixed):
    kw = dict(start or {})
    kw.update({"f_" + k: v for k, v in fixed.items()})
    d = zoo.FAMILIES[fam][0](**kw)
    d.fit(data)
    return {k: float(v) for k, v in d.parameters.items()}


def run_case(case):
    fam, th, n, seed, startk, fixg = case["family"], case["theta"], case["n"], case["seed"], case["start"], case.get("fix_gamma", False)
    viol = []
    nfit = 0
    gamma_free = fam == "WeibullDistribution" and not fixg

    def bad(clause, detail, gap=None):
        sig = {"check": "mle", "family": fam, "clause": clause}
        if case.get("fix_param"):
            sig["one_parameter_fixed"] = True
        if case.get("fix_offset"):
            sig["fixed_away_from_generating_value"] = True
        if fam == "WeibullDistribution":
            sig["gamma_free"] = gamma_free
            sig["beta_true_below_1"] = bool(th["beta"] < 1)
            if gap is not None:
                sig["ll_gap_below_100"] = bool(abs(gap) < 100)
        # witnesses that tie a violation to the mechanism of a known finding (anything else is reported as new)
        try:
            cs = [detail.get("scale_factor", 1.0)] + ([1.0] if clause == "not_scale_equivariant" else [])
            if fam == "LogNormalNormFitDistribution":
                # the 'mle' of this class is the moment estimator by design
                sig["fit_equals_sample_moments"] = bool(all(
                    c_ in res and abs(res[c_]["mu_norm"] - np.mean(data * c_)) <= 1e-12 * abs(np.mean(data * c_))
                    and abs(res[c_]["sigma_norm"] - np.std(data * c_, ddof=1)) <= 1e-12 * np.std(data * c_, ddof=1) for c_ in cs))
            if fam == "WeibullDistribution" and gamma_free and not case.get("fix_param"):
                # the estimate is exactly what scipy's optimiser returns from the same start values (the deficiency is the optimiser's)
                import scipy.stats as sts
                ok_ = True
                for c_ in cs:
                    st_ = start_for(c_)
                    sp_ = dict(zoo.FAMILIES[fam][0](**dict(st_ or {})).parameters)
                    b_, g_, a_ = sts.weibull_min.fit(data * c_, sp_["beta"], loc=sp_["gamma"], scale=sp_["alpha"])
                    r_ = res.get(c_)
                    ok_ = ok_ and r_ is not None and all(abs(r_[k_] - v_) <= 1e-10 * max(abs(v_), 1e-12) for k_, v_ in (("alpha", a_), ("beta", b_), ("gamma", g_)))
                sig["fit_equals_direct_scipy_optimiser_result"] = bool(ok_)
                # is the start location at or above the smallest observation (zero likelihood at the start)?
                below_ = False
                for c_ in cs:
                    st_ = start_for(c_)
                    g0_ = dict(zoo.FAMILIES[fam][0](**dict(st_ or {})).parameters)["gamma"]
                    below_ = below_ or bool(np.min(data * c_) <= g0_)
                sig["sample_reaches_below_start_location"] = below_
        except Exception as e:   # a witness that cannot be computed never matches a known finding
            detail = dict(detail, witness_error=f"{type(e).__name__}: {e}"[:160])
        if not any(v["sig"] == sig for v in viol):
            viol.append({"sig": sig, "detail": detail, "case": case})

    res = {}
    data = np.asarray(zoo.make(fam, th).draw_sample(n, random_state=seed), dtype=float)
    fixed = {}
    if fam == "WeibullDistribution" and fixg:
        fixed = {"gamma": th["gamma"]}
    if fam in ("GammaS", "ExponWeibS"):
        fixed = {"loc": 0.0}
    if case.get("fix_param"):   # one further parameter fixed at its generating value (likelihood clauses still apply)
        fixed = dict(fixed, **{case["fix_param"]: th[case["fix_param"]]})
    off = bool(case.get("fix_offset"))
    if off:                     # ... or fixed AWAY from its generating value (the free ones must adapt to it)
        v0 = th[case["fix_param"]]
        if case["fix_offset"] == "zero":      # a location-like parameter fixed at exactly 0 (falsy) although the data sit elsewhere
            fixed[case["fix_param"]] = 0.0
        else:
          fixed[case["fix_param"]] = v0 * 1.25 + 0.15 if case["fix_offset"] == "up" else v0 * 0.8 - (0.1 if TRANS[fam][case["fix_param"]] in ("logscale", "none") or (fam == "NormalDistribution" and case["fix_param"] == "mu") else 0.0)

    def start_for(c):
        if startk == "default":
            return None
        s = {}
        for k, v in th.items():
            if k in fixed:
                continue
            t = TRANS[fam][k]
            s[k] = v * (0.7 if (t == "scale" and zoo.FAMILIES[fam][2][zoo.FAMILIES[fam][1].index(k)] in ("loc", "mu")) else 1.3) if t != "none" else v + 0.2
        return scale_params(fam, s, c)

    for c in [1.0] + case["scales"]:
        dc = data * c
        if c != 1.0 and fam == "VonMisesDistribution":
            continue
        # the property is quantified over data whose scale stays within metocean magnitudes [0.05, 20]
        if fam != "VonMisesDistribution" and not (0.05 <= np.median(np.abs(dc)) <= 20 and np.quantile(np.abs(dc), 0.99) <= 30):
            continue
        st = start_for(c)
        fx = scale_params(fam, fixed, c) if fixed else {}
        try:
            p = fit(fam, dc, st, fx)
            nfit += 1
        except Exception as e:
            bad("exception", {"type": type(e).__name__, "msg": str(e)[:160], "scale_factor": c})
            continue
        res[c] = p
        for k_, v_ in fx.items():
            if not abs(p[k_] - v_) <= 1e-12 * max(abs(v_), 1e-300):
                bad("fixed_parameter_changed", {"param": k_, "fixed": v_, "got": p[k_], "scale_factor": c})
        if not admissible(fam, p):
            bad("inadmissible", {"params": p, "scale_factor": c})
            continue
        ll_fit = loglik(fam, p, dc)
        # start values: constructed instance with the start (fixed parameters in force)
        sp = dict(zoo.FAMILIES[fam][0](**dict(st or {}, **{"f_" + k: v for k, v in fx.items()})).parameters)
        ll_start = loglik(fam, sp, dc) if fam != "LogNormalNormFitDistribution" or st else -np.inf
        if np.isfinite(ll_start) and not ll_fit >= ll_start - 1e-9 * abs(ll_start) - 1e-9:
            bad("ll_below_start", {"ll_fit": ll_fit, "ll_start": ll_start, "params": p, "start": sp, "scale_factor": c})
        if off:
            # polished start: Nelder-Mead on the free parameters from the library's estimate (fixed ones in force); the
            # property's start-value clause is then applied to a fit started there ("user start values")
            if c == 1.0 and startk == "default":
                from scipy.optimize import minimize
                free = [k for k in p if k not in fx]
                if free:
                    def nll(v):
                        q = dict(p, **dict(zip(free, v)))
                        if not admissible(fam, q):
                            return 1e300
                        ll = loglik(fam, q, dc)
                        return -ll if np.isfinite(ll) else 1e300
                    r = minimize(nll, [p[k] for k in free], method="Nelder-Mead", options={"xatol": 1e-10, "fatol": 1e-12, "maxiter": 3000})
                    pol = dict(zip(free, map(float, r.x)))
                    ll_pol = -float(r.fun)
                    try:
                        p2 = fit(fam, dc, pol, fx)
                        nfit += 1
                        ll2 = loglik(fam, p2, dc)
                        if not ll2 >= ll_pol - 1e-9 * abs(ll_pol) - 1e-9:
                            bad("ll_below_start", {"ll_fit": ll2, "ll_start": ll_pol, "params": p2, "start": dict(pol, **fx), "start_kind": "polished"})
                    except Exception as e:
                        bad("exception", {"type": type(e).__name__, "msg": str(e)[:160], "start_kind": "polished"})
            continue
        ll_gen = loglik(fam, scale_params(fam, th, c), dc)
        if np.isfinite(ll_gen) and not ll_fit >= ll_gen - 1e-6 * abs(ll_gen) - 1e-6:
            bad("ll_vs_generating", {"ll_fit": ll_fit, "ll_generating": ll_gen, "params": p, "scale_factor": c, "deficit": ll_gen - ll_fit},
                gap=ll_gen - ll_fit)
    if 1.0 in res:
        ll1 = loglik(fam, res[1.0], data)
        for c, p in res.items():
            if c == 1.0:
                continue
            back = scale_params(fam, p, 1.0 / c)
            ok = all(abs(back[k] - res[1.0][k]) <= 1e-3 * max(abs(res[1.0][k]), 1e-2) for k in back)
            if not ok:
                llb = loglik(fam, back, data)
                # on flat ridges the parameters may differ while the attained likelihood is the same (optimiser tolerance)
                if not (np.isfinite(llb) and abs(llb - ll1) <= 0.05):
                    bad("not_scale_equivariant", {"scale_factor": c, "fit_of_scaled_data_mapped_back": back, "fit_of_data": res[1.0],
                                                  "ll_mapped_back": llb, "ll_fit": ll1}, gap=(llb - ll1) if np.isfinite(llb) else 1e9)
    return {"viol": viol, "n": nfit, "nontrivial": nfit, "outcomes": [f"{zoo.SHORT[fam]}:{len(viol)}"]}


def main(ctx):
    ctx.rule = ("complete product: family (9) x parameter grid of regular members x n in {100,1000,5000} x data seed x start {library "
                "default, admissible user start} x (Weibull: location free / fixed) ; each case also fits the data multiplied by c in "
                "{0.5, 3} (kept when the scaled data stay within metocean magnitudes). evaluations = fits. The data sets are a fixed "
                "finite family (their seeds do not move with VERIF_SEED). Additionally one parameter fixed at / above / below its generating value; "
                "for the off-value cases a second fit is started from a Nelder-Mead polished point (a 'user start value').")
    ctx.assumptions = ["log-likelihood evaluated with the distribution's own pdf (anchored by C05)",
                       "equivariance within optimiser tolerance: parameters within 1e-3 relative OR equal attained log-likelihood "
                       "(within 0.05) after mapping back - likelihood ridges are flat (Nelder-Mead stops on simplex size)",
                       "ScipyDistribution carriers restricted to regular ones (gumbel_r; gamma and the two-shape exponweib with f_loc=0)"]
    q = ctx.quick
    cases = []
    ns = (100, 1000, 5000)
    seeds = (1, 2) if q else (1, 2, 3, 4, 5)
    for fam, grid in GRID.items():
        for th in grid:
            for n, seed, st in itertools.product(ns, seeds, ("default", "user")):
                variants = [False, True] if fam == "WeibullDistribution" else [False]
                for fg in variants:
                    if fam == "WeibullDistribution" and th["gamma"] == 0.0 and not fg and th["beta"] < 1:
                        pass
                    cases.append({"family": fam, "theta": th, "n": n, "seed": seed, "start": st, "fix_gamma": fg,
                                  "scales": [0.5, 3.0]})
                    if st == "default" and seed == 1 and fam not in ("LogNormalNormFitDistribution",) and (fg or fam != "WeibullDistribution"):
                        for pn in zoo.FAMILIES[fam][1]:
                            if pn == "gamma" or (fam in ("GammaS", "ExponWeibS") and pn == "loc"):
                                continue
                            cases.append({"family": fam, "theta": th, "n": n, "seed": seed, "start": st, "fix_gamma": fg,
                                          "scales": [0.5, 3.0], "fix_param": pn})
                            if n <= 1000:
                                ods = ["up", "down"]
                                if (fam, pn) in (("NormalDistribution", "mu"), ("LogNormalDistribution", "mu"), ("VonMisesDistribution", "mu"),
                                                 ("GumbelR", "loc")) and th[pn] != 0:
                                    ods.append("zero")
                                for od in ods:
                                    cases.append({"family": fam, "theta": th, "n": n, "seed": seed, "start": st, "fix_gamma": fg,
                                                  "scales": [], "fix_param": pn, "fix_offset": od})
    for c in cases:
        ctx.axis("family", zoo.SHORT[c["family"]])
    cases.sort(key=lambda c: -c["n"])
    ctx.pmap(cases, chunksize=4, label="mle")
