"""Composite Gauss-Legendre cubature of a vectorised density over a box, independent of scipy.integrate.nquad and of
virocon's argument re-ordering. Panels are placed at marginal quantiles of a seeded sample and at known kinks
(support boundaries), graded geometrically towards the lower boundary and into the upper tail. Every value is computed
with k and 2k nodes per panel; the difference is returned as the self-consistency error."""

import numpy as np

_GL = {}


def gl(k):
    if k not in _GL:
        _GL[k] = np.polynomial.legendre.leggauss(k)
    return _GL[k]


def panel_edges(sample_col, lower, upper_factor=4.0, kinks=(), n_bulk=24):
    """Edges from `lower` to upper_factor*max(sample): kinks, geometric grading just above each kink, bulk quantiles,
    geometric tail."""
    s = np.sort(np.asarray(sample_col, dtype=float))
    qs = np.concatenate([[1e-5, 1e-4, 1e-3, 1e-2], np.linspace(0.03, 0.97, n_bulk), [0.99, 0.999, 0.9999, 0.99999]])
    e = list(np.quantile(s, qs))
    hi = upper_factor * s[-1] if s[-1] > 0 else s[-1] + upper_factor * (s[-1] - s[0])
    e += list(np.geomspace(max(s[-1], 1e-12), hi, 6)) if s[-1] > 0 else [hi]
    e += [lower]
    scale = max(np.quantile(s, 0.5) - lower, 1e-9)
    for kpos in list(kinks) + [lower]:
        e.append(kpos)
        e += [kpos + scale * 10.0 ** (-j) for j in range(1, 7)]
    e = np.unique(np.array([v for v in e if lower <= v <= hi]))
    # merge edges that are closer than 1e-12 relative
    keep = [e[0]]
    for v in e[1:]:
        if v - keep[-1] > 1e-13 * max(1.0, abs(v)):
            keep.append(v)
    return np.array(keep)


def clip_edges(edges, lo, hi):
    e = edges[(edges > lo) & (edges < hi)]
    return np.concatenate([[lo], e, [hi]]) if hi > lo else np.array([lo, lo])


def nodes_weights(edges, k):
    x, w = gl(k)
    a, b = edges[:-1], edges[1:]
    mid, half = (a + b) / 2, (b - a) / 2
    X = (mid[:, None] + half[:, None] * x[None, :]).ravel()
    W = (half[:, None] * w[None, :]).ravel()
    return X, W


def integrate(f, edges_per_dim, k=6, fixed=None, chunk=400000):
    """Integral of f over the product of the panel sets. f takes an (N, n_dim) array. `fixed` = {dim: value} for
    dimensions that are not integrated (then edges_per_dim[dim] is ignored). Returns (value_k, value_2k)."""
    vals = []
    n_dim = len(edges_per_dim)
    fixed = fixed or {}
    for kk in (k, 2 * k):
        XW = []
        for d in range(n_dim):
            if d in fixed:
                XW.append((np.array([float(fixed[d])]), np.array([1.0])))
            else:
                XW.append(nodes_weights(edges_per_dim[d], kk))
        shape = [len(x) for x, _ in XW]
        total = 0.0
        # iterate over the first dimension in slabs to bound memory
        rest = [np.meshgrid(*[x for x, _ in XW[1:]], indexing="ij")] if n_dim > 1 else None
        if n_dim > 1:
            R = np.stack([g.ravel() for g in rest[0]], axis=1)
            WR = np.ones(len(R))
            mg = np.meshgrid(*[w for _, w in XW[1:]], indexing="ij")
            for g in mg:
                WR = WR * g.ravel()
            x0, w0 = XW[0]
            step = max(1, chunk // len(R))
            for i in range(0, len(x0), step):
                xs = x0[i:i + step]
                P = np.empty((len(xs) * len(R), n_dim))
                P[:, 0] = np.repeat(xs, len(R))
                P[:, 1:] = np.tile(R, (len(xs), 1))
                fv = np.asarray(f(P), dtype=float)
                total += float(np.sum(fv.reshape(len(xs), len(R)) * w0[i:i + step, None] * WR[None, :]))
        else:
            x0, w0 = XW[0]
            total = float(np.sum(np.asarray(f(x0.reshape(-1, 1)), dtype=float) * w0))
        vals.append(total)
    return vals[0], vals[1]
