"""Explicit-state exploration over the real transition function.

A state is identified by the event history that reaches it; build(history) creates FRESH real objects and replays the
events with the real methods (live scipy / virocon objects do not copy reliably). Each reached state is reduced to a
canonical form; breadth-first search continues until no new canonical state appears (closed) or the depth bound is hit.
"""

import collections
import hashlib
import json
import types
import functools

import numpy as np

from .core import jsonable


def canon_obj(o, digits=None, _seen=None, _depth=0):
    """Deep structural snapshot of an object graph as plain JSON-able data. Floats exact (repr) or rounded to
    `digits` significant digits. Object identity is not part of the snapshot (see alias_graph)."""
    if _seen is None:
        _seen = {}
    if _depth > 40:
        return "<depth>"
    if o is None or isinstance(o, (bool, int, str)):
        return o
    if isinstance(o, (float, np.floating)):
        f = float(o)
        if f != f:
            return "nan"
        if digits is None:
            return repr(f)
        return float(f"{f:.{digits}g}") if np.isfinite(f) else repr(f)
    if isinstance(o, (np.integer,)):
        return int(o)
    if isinstance(o, np.bool_):
        return bool(o)
    if isinstance(o, np.ndarray):
        if o.dtype == object:
            return ["ndarray-object", list(o.shape), [canon_obj(v, digits, _seen, _depth + 1) for v in o.ravel().tolist()]]
        if digits is None or not np.issubdtype(o.dtype, np.floating):
            return ["ndarray", str(o.dtype), list(o.shape), hashlib.sha256(np.ascontiguousarray(o).tobytes()).hexdigest()[:16]]
        return ["ndarray", str(o.dtype), list(o.shape), [canon_obj(v, digits) for v in o.ravel().tolist()]]
    if isinstance(o, np.random.Generator):        # a stateful random stream: its state IS part of the object's state
        return {"__generator__": type(o.bit_generator).__name__, "state": canon_obj(o.bit_generator.state, digits, _seen, _depth + 1)}
    if isinstance(o, np.random.RandomState):
        st = o.get_state(legacy=False)
        return {"__randomstate__": canon_obj(dict(st), digits, _seen, _depth + 1)}
    oid = id(o)
    if oid in _seen:
        return f"<ref {_seen[oid]}>"
    if isinstance(o, (list, tuple)):
        _seen[oid] = len(_seen)
        return [type(o).__name__] + [canon_obj(v, digits, _seen, _depth + 1) for v in o]
    if isinstance(o, (set, frozenset)):
        _seen[oid] = len(_seen)
        return ["set"] + sorted((json.dumps(canon_obj(v, digits, _seen, _depth + 1), sort_keys=True, default=str) for v in o))
    if isinstance(o, dict):
        _seen[oid] = len(_seen)
        return {"__dict__": [[canon_obj(k, digits, _seen, _depth + 1), canon_obj(v, digits, _seen, _depth + 1)] for k, v in o.items()]}
    if isinstance(o, functools.partial):
        _seen[oid] = len(_seen)
        return {"__partial__": [canon_obj(o.func, digits, _seen, _depth + 1), canon_obj(o.args, digits, _seen, _depth + 1),
                                canon_obj(o.keywords, digits, _seen, _depth + 1)]}
    if isinstance(o, (types.FunctionType, types.BuiltinFunctionType, types.MethodType)):
        code = getattr(o, "__code__", None)
        cells = []
        if getattr(o, "__closure__", None):
            _seen[oid] = len(_seen)
            for c in o.__closure__:
                try:
                    cells.append(canon_obj(c.cell_contents, digits, _seen, _depth + 1))
                except ValueError:
                    cells.append("<empty cell>")
        return {"__function__": getattr(o, "__qualname__", repr(o)),
                "code": hashlib.sha256(code.co_code).hexdigest()[:12] if code else None,
                "defaults": canon_obj(getattr(o, "__defaults__", None), digits, _seen, _depth + 1), "closure": cells}
    if isinstance(o, type):
        return {"__class__": o.__module__ + "." + o.__qualname__}
    if hasattr(o, "__dict__"):
        _seen[oid] = len(_seen)
        return {"__object__": type(o).__module__ + "." + type(o).__qualname__,
                "attrs": [[k, canon_obj(v, digits, _seen, _depth + 1)] for k, v in sorted(vars(o).items())]}
    return repr(o)[:200]


def digest(o, digits=None):
    return hashlib.sha256(json.dumps(canon_obj(o, digits), sort_keys=True, default=str).encode()).hexdigest()[:20]


MUTABLE = (list, dict, set, np.ndarray)


def reachable_mutable_ids(o, _acc=None, _depth=0):
    """ids of all mutable objects reachable from o (lists, dicts, sets, arrays, instances with __dict__),
    excluding modules, classes, functions' code and immutables."""
    if _acc is None:
        _acc = {}
    if _depth > 40 or o is None or isinstance(o, (bool, int, float, str, bytes, type, types.ModuleType, np.generic)):
        return _acc
    oid = id(o)
    if oid in _acc:
        return _acc
    if isinstance(o, np.ndarray):
        _acc[oid] = "ndarray"
        if o.base is not None and isinstance(o.base, np.ndarray):
            _acc[id(o.base)] = "ndarray-base"
        return _acc
    if isinstance(o, (list, tuple, set, frozenset)):
        if not isinstance(o, (tuple, frozenset)):
            _acc[oid] = type(o).__name__
        for v in o:
            reachable_mutable_ids(v, _acc, _depth + 1)
        return _acc
    if isinstance(o, dict):
        _acc[oid] = "dict"
        for k, v in o.items():
            reachable_mutable_ids(v, _acc, _depth + 1)
        return _acc
    if isinstance(o, functools.partial):
        _acc[oid] = "partial"
        reachable_mutable_ids(o.func, _acc, _depth + 1)
        reachable_mutable_ids(o.args, _acc, _depth + 1)
        reachable_mutable_ids(o.keywords, _acc, _depth + 1)
        return _acc
    if isinstance(o, (types.FunctionType, types.MethodType)):
        if getattr(o, "__closure__", None):
            for c in o.__closure__:
                try:
                    reachable_mutable_ids(c.cell_contents, _acc, _depth + 1)
                except ValueError:
                    pass
        if isinstance(o, types.MethodType):
            reachable_mutable_ids(o.__self__, _acc, _depth + 1)
        return _acc
    if hasattr(o, "__dict__"):
        _acc[oid] = type(o).__name__
        for v in vars(o).values():
            reachable_mutable_ids(v, _acc, _depth + 1)
    return _acc


def bfs(build, enabled, canon, check, max_depth, max_states=100000):
    """Generic BFS. build(hist)->state; enabled(hist, state)->events; canon(state)->hashable;
    check(hist, event, prev_state_or_None, state)->list of violations (dicts). Returns stats dict."""
    s0 = build([])
    seen = {canon(s0): []}
    frontier = collections.deque([[]])
    transitions = 0
    traces = 1
    viols = []
    depth_reached = 0
    closed = True
    samples = []
    while frontier:
        hist = frontier.popleft()
        st_prev = build(hist) if hist else s0
        for ev in enabled(hist, st_prev):
            h2 = hist + [ev]
            st = build(h2)
            traces += 1
            transitions += 1
            for v in check(hist, ev, st_prev, st):
                viols.append(v)
            k = canon(st)
            if k not in seen:
                if len(h2) > max_depth:
                    closed = False
                    continue
                if len(seen) >= max_states:
                    closed = False
                    continue
                seen[k] = h2
                frontier.append(h2)
                depth_reached = max(depth_reached, len(h2))
                if len(samples) < 5:
                    samples.append(jsonable(h2))
    return {"states": len(seen), "transitions": transitions, "traces": traces, "depth": depth_reached, "closed": closed,
            "violations": viols, "samples": samples}
